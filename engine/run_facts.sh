#!/bin/bash
# usage: run_facts.sh <repo-dir> <out.json> [extra cargo args...]
set -e
REPO=$1; OUT=$2; shift 2
T=$(mktemp -d /var/tmp/hlfacts.XXXXXX)
trap 'rm -rf "$T"' EXIT
SYSROOT=$(rustc +nightly --print sysroot)
cd "$REPO"
LD_LIBRARY_PATH=$SYSROOT/lib \
RUSTFLAGS="-Zmir-opt-level=0 -Awarnings" \
RUSTC_WORKSPACE_WRAPPER=/verif/engine/hlfacts/target/release/hlfacts \
HLFACTS_OUT="$T/facts.json" CARGO_TARGET_DIR="$T/target" CARGO_NET_OFFLINE=true \
cargo +nightly check --offline --lib "$@" >"$T/log" 2>&1 || { cat "$T/log" >&2; exit 2; }
test -s "$T/facts.json" || { echo "hlfacts: no fact file written" >&2; cat "$T/log" >&2; exit 2; }
mv "$T/facts.json" "$OUT"
