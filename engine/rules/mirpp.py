"""Pretty-printer for the MIR facts (debugging aid and report text)."""
def place_s(p):
    s = "_%d" % p["l"]
    for e in p["p"]:
        if e == "*":
            s = "(*%s)" % s
        elif isinstance(e, int):
            s = "%s.%d" % (s, e)
        else:
            s = "%s%s" % (s, e) if e.startswith("[") else "(%s %s)" % (s, e)
    return s

def op_s(o):
    k = o["k"]
    if k in ("copy", "move"):
        return ("move " if k == "move" else "") + place_s(o["place"])
    if k == "const":
        return "const " + o["s"]
    return o.get("s", "?")

def rv_s(rv):
    k = rv["k"]
    if k == "use":
        return op_s(rv["op"])
    if k == "ref":
        return ("&mut " if rv["mut"] else "&") + place_s(rv["place"])
    if k == "rawptr":
        return "&raw(%s) %s" % (rv["kind"], place_s(rv["place"]))
    if k == "cast":
        return "%s as %s (%s)" % (op_s(rv["op"]), rv["ty"]["s"], rv["kind"])
    if k == "binop":
        return "%s(%s, %s)" % (rv["op"], op_s(rv["a"]), op_s(rv["b"]))
    if k == "unop":
        return "%s(%s)" % (rv["op"], op_s(rv["a"]))
    if k == "discr":
        return "discriminant(%s)" % place_s(rv["place"])
    if k == "aggregate":
        a = rv["agg"]
        name = {"adt": lambda: "%s::%s" % (rv["path"], rv["variant_name"]), "tuple": lambda: "tuple",
                "array": lambda: "array", "closure": lambda: "closure " + rv["def"]}.get(a, lambda: a)()
        return "%s{%s}" % (name, ", ".join(op_s(x) for x in rv["ops"]))
    return rv.get("s", k)

def callee_s(c):
    if c["k"] == "fndef":
        s = c["s"]
        r = c.get("resolved")
        if isinstance(r, dict) and r["def"] != c["def"]:
            s += " => %s[%s]" % (r["def"], r["kind"])
        elif isinstance(r, dict) and r["kind"] != "Item":
            s += " [%s]" % r["kind"]
        return s
    return c.get("s", c["k"])

def term_s(t):
    k = t["k"]
    if k == "goto":
        return "goto bb%d" % t["target"]
    if k == "switch":
        return "switch(%s) [%s, otherwise: bb%d]" % (op_s(t["discr"]), ", ".join("%s: bb%d" % (v, b) for v, b in t["arms"]), t["otherwise"])
    if k in ("return", "unreachable", "resume", "terminate"):
        return k
    uw = lambda: (" unwind %s" % ("bb%d" % t["unwind"] if isinstance(t["unwind"], int) else t["unwind"]))
    if k == "drop":
        return "drop(%s: %s) -> bb%d%s" % (place_s(t["place"]), t["ty"]["s"], t["target"], uw())
    if k == "call":
        return "%s = %s(%s) -> %s%s" % (place_s(t["dest"]), callee_s(t["callee"]), ", ".join(op_s(a) for a in t["args"]),
                                        "bb%d" % t["target"] if t["target"] is not None else "!", uw())
    if k == "assert":
        return "assert(%s == %s, %s) -> bb%d%s" % (op_s(t["cond"]), t["expected"], t["msg"], t["target"], uw())
    return t.get("s", k)

def fn_s(f):
    out = ["fn %s  [%s] %s:%d" % (f["path"], f["id"], f["span"]["file"], f["span"]["line"])]
    m = f.get("mir")
    if not m:
        return out[0] + " (no MIR)"
    for l in m["locals"]:
        out.append("    let _%d: %s%s" % (l["i"], l["ty"]["s"], "  (arg)" if 1 <= l["i"] <= m["arg_count"] else ""))
    for d in m["debug"]:
        out.append("    debug %s => %s" % (d["name"], place_s(d["place"]) if "place" in d else d.get("const")))
    for b in m["blocks"]:
        out.append("  bb%d%s:" % (b["i"], " (cleanup)" if b["cleanup"] else ""))
        for s in b["stmts"]:
            if s["k"] == "assign":
                out.append("    %s = %s" % (place_s(s["dst"]), rv_s(s["rv"])))
            else:
                out.append("    " + str(s))
        out.append("    %s   // L%d" % (term_s(b["term"]), b["term"]["line"]))
    return "\n".join(out)

if __name__ == "__main__":
    import json, sys
    d = json.load(open(sys.argv[1]))
    for f in d["fns"]:
        if any(a in f["path"] or a == f["id"] for a in sys.argv[2:]):
            print(fn_s(f)); print()
