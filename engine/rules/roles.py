"""Vocabulary derived from the facts: key / key carriers / hold types / roles of functions.
Everything is derived from types and signatures, never from names of functions."""
from facts import ty_walk

KEY = "key::ThreadKey"
KEYABLE = "key::Keyable"
FN_TRAITS = ("std::ops::FnOnce", "std::ops::FnMut", "std::ops::Fn")


def by_value_types(t):
    """Types contained by value in t (does not look behind references, raw pointers, PhantomData, fn items)."""
    yield t
    k = t["k"]
    if k == "adt":
        if t["path"].endswith("PhantomData"):
            return
        for a in t.get("args", []):
            if a["k"] not in ("region", "const"):
                yield from by_value_types(a)
    elif k == "alias":
        for a in t.get("args", []):
            if a["k"] not in ("region", "const"):
                yield from by_value_types(a)
    elif k in ("array", "slice"):
        yield from by_value_types(t["ty"])
    elif k == "tuple":
        for e in t["elems"]:
            yield from by_value_types(e)


def holds_no_user_value(t, F=None, _depth=0):
    """True when a value of type t owns nothing whose destructor matters to a user: by value it contains only foreign
    containers of references / raw pointers / primitives (e.g. the cached `Vec<&dyn RawLock>`).  Forgetting such a value
    can leak a buffer, never a user value."""
    if t is None:
        return False
    for x in by_value_types(t):
        k = x["k"]
        if k in ("ref", "ptr", "prim", "tuple", "array", "slice", "fndef", "fnptr", "never"):
            continue
        if k == "adt" and not x.get("local") and x["path"] in ("std::vec::Vec", "std::boxed::Box", "std::mem::ManuallyDrop",
                                                              "std::alloc::Global", "std::option::Option"):
            continue
        if k == "adt" and x["path"].endswith("PhantomData"):
            continue
        if k == "param" and x is not t:
            # a type argument of an enclosing ADT: what matters is what the ADT's fields hold by value (checked below)
            continue
        if k == "adt" and x.get("local") and F is not None and _depth < 4 and x["path"] in F.adts:
            # a crate-local struct (a hold such as `MutexRef<'a, T, R>`): judged by the types of its fields
            from facts import ty_subst
            a = F.adts[x["path"]]
            ok = True
            for v in a["variants"]:
                for fld in v["fields"]:
                    ft = ty_subst(fld["ty"], a["generics"], x.get("args", []))
                    if ft.get("k") == "param" or not holds_no_user_value(ft, F, _depth + 1):
                        ok = False
            if ok:
                continue
        return False
    return True


def contains_by_value(t, paths):
    return any(x["k"] == "adt" and x["path"] in paths for x in by_value_types(t))


class Roles:
    def __init__(self, ctx):
        self.ctx = ctx
        F = self.F = ctx.F
        self.holdtypes = dict(ctx.M["holdtypes"])
        # ADTs that contain the key by value (transitively)
        self.key_carriers = self._closure({KEY}) - {KEY}
        self.hold_owners = self._closure(set(self.holdtypes)) - set(self.holdtypes)
        self.lock_adts = set(i["self_ty"]["path"] for i in F.impls_of("lockable::RawLock") if i["self_ty"]["k"] == "adt")
        self._roles = {}
        for f in F.fns:
            if f["kind"] == "Closure" or "inputs" not in f:
                continue
            # crate-private helpers have no contract of their own: they are judged inlined into the reachable functions that
            # call them (extracting or inlining a helper must not change any verdict)
            self._roles[f["id"]] = self._classify(f) if f.get("reachable") else {"HELPER"}

    def _closure(self, seed):
        s = set(seed)
        changed = True
        while changed:
            changed = False
            for a in self.F.adts.values():
                if a["path"] in s:
                    continue
                for v in a["variants"]:
                    for fld in v["fields"]:
                        if contains_by_value(fld["ty"], s):
                            s.add(a["path"])
                            changed = True
        return s

    # ---- parameters ------------------------------------------------------
    def param_bounds(self, f, pname):
        out = []
        for p in f.get("predicates", []):
            if p["k"] == "trait" and p["self"]["k"] == "param" and p["self"]["name"] == pname:
                out.append(p)
        return out

    def keyable_params(self, f):
        """Names of type parameters bounded by Keyable."""
        out = set()
        for p in f.get("predicates", []):
            if p["k"] == "trait" and p["trait"] == KEYABLE and p["self"]["k"] == "param":
                out.add(p["self"]["name"])
        return out

    def fn_params(self, f):
        out = {}
        for p in f.get("predicates", []):
            if p["k"] == "trait" and p["trait"] in FN_TRAITS and p["self"]["k"] == "param":
                out[p["self"]["name"]] = p
        return out

    def key_inputs(self, f):
        """[(index(1-based), 'owned'|'keyable'|'ref'|'refmut')] for inputs that are keys."""
        kp = self.keyable_params(f)
        out = []
        for i, t in enumerate(f["inputs"]):
            if t["k"] == "adt" and t["path"] == KEY:
                out.append((i + 1, "owned"))
            elif t["k"] == "param" and t["name"] in kp:
                out.append((i + 1, "keyable"))
            elif t["k"] == "ref" and t["ty"]["k"] == "adt" and t["ty"]["path"] == KEY:
                out.append((i + 1, "refmut" if t["mut"] else "ref"))
        return out

    def closure_inputs(self, f):
        fp = self.fn_params(f)
        return [(i + 1, t["name"]) for i, t in enumerate(f["inputs"]) if t["k"] == "param" and t["name"] in fp]

    def mentions_carrier(self, t):
        return any(x["k"] == "adt" and x["path"] in self.key_carriers for x in ty_walk(t))

    def mentions_key(self, t):
        return any(x["k"] == "adt" and x["path"] == KEY for x in by_value_types(t))

    def _classify(self, f):
        keys = self.key_inputs(f)
        closures = self.closure_inputs(f)
        roles = set()
        owned = [k for k in keys if k[1] in ("owned", "keyable")]
        out = f["output"]
        if any(k[1] == "owned" for k in keys) and self.mentions_carrier(out):
            roles.add("ACQ-GUARD")
        if owned and closures:
            roles.add("ACQ-SCOPED")
        if owned and not closures and not roles and f.get("reachable") and not self.mentions_key(out):
            # surrenders the key for the call, runs no user closure and returns neither a carrier nor the key: an
            # acquiring operation that releases everything before it returns (`get_cloned(key)`, `replace(key, v)`)
            roles.add("ACQ-KEYED")
        if roles and out["k"] == "adt" and out["path"].endswith("Result"):
            # can it hand the key back?
            errs = out["args"][1:] if out["path"] == "std::result::Result" else []
            kp = self.keyable_params(f)
            for e in errs:
                if self.mentions_key(e) or (e["k"] == "param" and e["name"] in kp) or self.mentions_carrier(e):
                    if any(x["k"] == "adt" and x["path"] == KEY for x in by_value_types(e)) or e["k"] == "param":
                        roles.add("TRY")
                    elif e["k"] == "adt" and e["path"] in self.key_carriers and len(self.F.adts[e["path"]]["variants"]) > 1:
                        roles.add("TRY")
        if not keys:
            for i, t in enumerate(f["inputs"]):
                if t["k"] == "adt" and t["path"] in self.key_carriers and out["k"] == "adt" and out["path"] == KEY:
                    roles.add("RELEASE-API")
        if not roles and not keys and f.get("reachable") and self.mentions_carrier(out) and \
                any(t["k"] == "adt" and t["path"] in self.key_carriers for t in f["inputs"]):
            # consumes a key carrier (the key is inside it) and returns one: holds the key for the whole call, like an
            # acquiring function (`unlocked(guard, f) -> guard`, `PoisonError<Guard>::into_inner`)
            roles.add("REACQ")
        if not roles:
            roles.add("NON-ACQ")
        return roles

    def roles(self, f):
        return self._roles.get(f["id"], set())

    def with_role(self, role):
        return [f for f in self.F.fns if role in self._roles.get(f["id"], ())]

    def api(self, f):
        """safe and reachable from other crates"""
        return f.get("reachable") and not f.get("unsafe")
