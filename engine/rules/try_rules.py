import sys, time, common, roles, importlib
t=time.time()
ctx=common.Ctx(); R=roles.Roles(ctx)
for spec in sys.argv[1:]:
    mod, fn = spec.split('.')
    m=importlib.import_module(mod)
    r=getattr(m, fn)(ctx,R)
    print(r.rule, r.desc, 'instances',len(r.instances),'violations',len(r.violations))
    for v in r.violations: print('   V', v.key, '\n        ', v.file, v.line, v.msg[:700])
print('%.1fs'%(time.time()-t))
