"""Typestate / path rules evaluated on the interpreter's paths (rule family `ts`)."""
from common import RuleResult, Violation
from interp import val_contains, val_ops


def _fnloc(ctx, f):
    return f["span"]["file"], f["span"]["line"]


def analysed_fns(ctx):
    return [f for f in ctx.F.fns if f["kind"] != "Closure" and "mir" in f]


def is_collection_lock_op(ctx, f):
    """RawLock impl method of one of the multi-lock collections: decided on the data model (rules_sem / rules_alg), where the
    member list is concrete; the per-receiver typestate of the API-level analysis does not track list elements"""
    if not (f.get("trait_item") or "").startswith("lockable::RawLock::"):
        return False
    imp = ctx.F.impl_of_fn(f)
    return bool(imp and imp["self_ty"]["k"] == "adt" and imp["self_ty"]["path"].startswith("collection::"))


def entry_fns(ctx):
    """Functions that other crates can name or reach through a public trait: the roots of every path rule.  Crate-private
    helpers are analysed inlined into them, so extracting, inlining, renaming or moving a helper changes no verdict."""
    return [f for f in analysed_fns(ctx) if f.get("reachable")]


# multi-lock algorithm helpers (ctx.A.role) are summarised as primitives at API level and decided by E4


def _site(ev, ordmap):
    base = "%s:%s@%s" % (ev["k"], ev.get("op", ev.get("mode", "")), ev.get("recv", ""))
    return base


def held_exit_obligation(ctx, R, f, paths):
    """At `ret` every lock still held must be owned by a hold/guard inside the returned value;
    at an unwinding exit nothing may still be held.  Returns list of (kind, recv, mode, path)."""
    out = []
    holdtypes = ctx.M["holdtypes"]
    for p in paths:
        if p.kind not in ("ret", "unwind"):
            continue
        held = {r: m for r, m in p.locks.items() if m in ("W", "R")}
        if not held:
            continue
        owned = set()
        if p.kind == "ret" and p.value is not None:
            def visit(v):
                if v[0] == "agg":
                    if v[1] == "adt" and v[2] in holdtypes:
                        fld = holdtypes[v[2]][0]
                        lv = v[4][fld]
                        if lv[0] == "ref":
                            from interp import loc_s
                            owned.add(loc_s(lv[1]))
                    for x in v[4]:
                        visit(x)
                elif v[0] == "op":
                    g = p.guards.get(v[1])
                    if g and g[2] == "live" and g[0]:
                        owned.add(g[0])
                    # a part of a guard-family result (`match guard() { Ok(g) => .., Err(e) => e.into_inner() }`)
                    for gid, g2 in p.guards.items():
                        if v[1].startswith(gid + ".") and g2[2] == "live" and g2[0]:
                            owned.add(g2[0])
                    # an argument (or part of one) handed back unchanged keeps its pre-held locks
                    for r in held:
                        if r.startswith(v[1] + "."):
                            owned.add(r)
            visit(p.value)
        for r, m in held.items():
            if r in owned:
                continue
            # only locks acquired by this call are this call's obligation (pre-held ones belong to argument guards)
            if any(e["k"] in ("ACQ", "TRY") and e.get("recv") == r for e in p.events):
                out.append((p.kind, r, m, p))
    return out


# ---------------------------------------------------------------------------
def rule_T1(ctx, R):
    """acquire-before-assume: every ASSUME op / hold construction / protected-cell access is preceded on its
    path by a successful acquisition of the same receiver in the matching mode (eager arguments included)."""
    res = RuleResult("T1", "acquire-before-assume in every safe or acquiring function")
    seen = set()
    for f in entry_fns(ctx):
        paths, err, I = ctx.paths(f)
        if err:
            if f.get("unsafe") is False and f.get("reachable"):
                res.undecided(f["path"], "analysis", err, *_fnloc(ctx, f))
            continue
        has_assume = any(e["k"] == "ASSUME" for p in paths for e in p.events)
        acquires = any(e["k"] in ("ACQ", "TRY") for p in paths for e in p.events)
        if not has_assume:
            continue
        judged = (not f.get("unsafe")) or acquires
        if not judged:
            continue
        if (any(p.kind == "cut" for p in paths) and f.get("unsafe")) or is_collection_lock_op(ctx, f):
            continue
        bad = False
        for p in paths:
            for pr in p.problems:
                if pr["k"] != "ASSUME_NOT_HELD":
                    continue
                ev = p.events[pr["at"]]
                site = "%s@%s" % (ev.get("hold") or ev.get("op"), ev.get("mode"))
                key = (ev["fn"], site)
                bad = True
                if key in seen:
                    continue
                seen.add(key)
                top = ev["fn"].split("::{closure")[0]
                res.bad(Violation("T1", top, site,
                                  "%s assumes lock %s is held in mode %s but on this path it is %s "
                                  "(reached from %s; path: %s)" % (
                                      ev.get("hold") or ev.get("op"), ctx.arg_name(f, ev["recv"]), ev["mode"],
                                      {"U": "not held", "K": "killed"}.get(pr["have"], "held in mode " + pr["have"]),
                                      f["path"], p.trace()[:400]),
                                  ev.get("file"), ev.get("line")))
        if not bad:
            res.ok(f["path"])
    res.need(60, "functions with an assume/hold/cell access that are safe or acquire")
    return res


def rule_T2(ctx, R):
    """user closure runs only while every lock whose data it receives is held."""
    res = RuleResult("T2", "user closure of scoped functions runs only while held, with data of the held receiver")
    for f in R.with_role("ACQ-SCOPED"):
        paths, err, I = ctx.paths(f)
        if err:
            res.undecided(f["path"], "analysis", err, *_fnloc(ctx, f))
            continue
        n_user = 0
        ok = True
        for p in paths:
            for e in p.ev("USER"):
                n_user += 1
                held = {r: m for r, m in e["locks"].items() if m in ("W", "R")}
                assumes = [a for a in p.events[:e["i"]] if a["k"] == "ASSUME"]
                good = any(a["recv"] in held and (held[a["recv"]] == a["mode"] or a["mode"] == "RW") for a in assumes)
                # every assumed receiver must be held at the call
                stale = [a for a in assumes if a["recv"] not in held]
                if not good or stale or not held:
                    ok = False
                    res.bad(Violation("T2", f["path"], "user-call",
                                      "user closure is invoked while %s (path: %s)" % (
                                          "no lock is held" if not held else "receiver of its data is not held",
                                          p.trace()[:400]), e.get("file"), e.get("line")))
                    break
            if not ok:
                break
        if n_user == 0:
            res.bad(Violation("T2", f["path"], "no-user-call", "scoped function never invokes its closure",
                              *_fnloc(ctx, f)))
        elif ok:
            res.ok(f["path"])
    res.need(26, "ACQ-SCOPED functions")
    return res


def rule_M4(ctx, R):
    """release only of what is held, in the held mode, once (API level)."""
    res = RuleResult("M4", "every release (explicit, hold Drop, guard drop) hits a receiver held in that mode")
    seen = set()
    for f in entry_fns(ctx):
        paths, err, I = ctx.paths(f)
        if err:
            continue
        acquires = any(e["k"] in ("ACQ", "TRY") for p in paths for e in p.events)
        rels = any(e["k"] in ("REL", "GDROP") for p in paths for e in p.events)
        if not rels:
            continue
        if f.get("unsafe") and not acquires:
            continue   # precondition carried to callers (which are analysed with this body inlined)
        if any(p.kind == "cut" for p in paths) or is_collection_lock_op(ctx, f):
            continue   # loop-bearing algorithm bodies: list elements are not tracked here (Q3/Q4, E2 decide them)
        bad = False
        for p in paths:
            for pr in p.problems:
                if pr["k"] not in ("REL_NOT_HELD", "GUARD_DROPPED_TWICE"):
                    continue
                ev = p.events[pr["at"]]
                # attribute to the function that *decided* to release: the innermost non-Drop frame is not
                # recorded, so use the analysed function unless the event sits in a helper that acquires
                site = "%s:%s" % (ev["k"], ev.get("mode"))
                owner = f["path"]
                # find the innermost acquiring helper on the path (the place where the bug lives)
                for e2 in reversed(p.events[:pr["at"]]):
                    if e2["k"] in ("TRY", "ACQ") and e2.get("recv") == ev.get("recv"):
                        owner = e2["fn"].split("::{closure")[0]
                        break
                key = (owner, site, pr["k"])
                bad = True
                if key in seen:
                    continue
                seen.add(key)
                res.bad(Violation("M4", owner, site + ":" + pr["k"],
                                  "release of %s in mode %s while it is %s (reached from %s; path: %s)" % (
                                      ctx.arg_name(f, ev.get("recv") or "?"), ev.get("mode"),
                                      {"U": "not held by this call", "K": "killed"}.get(pr.get("have"), pr.get("have")),
                                      f["path"], p.trace()[:400]), ev.get("file"), ev.get("line")))
        if not bad:
            res.ok(f["path"])
    res.need(44, "functions that release")
    return res


def rule_LEAK(ctx, R, rule="R3", roles=("ACQ-SCOPED",), all_fns=False, floor=30):
    """exit obligation: locks acquired by the call are released (or owned by the returned guard) at return,
    and released at every unwinding exit."""
    res = RuleResult(rule, "locks acquired by a call are released or owned by the returned guard at every exit")
    fns = entry_fns(ctx) if all_fns else [f for f in ctx.F.fns if R.roles(f) & set(roles)]
    for f in fns:
        paths, err, I = ctx.paths(f)
        if err:
            if not all_fns:
                res.undecided(f["path"], "analysis", err, *_fnloc(ctx, f))
            continue
        if not any(e["k"] in ("ACQ", "TRY") for p in paths for e in p.events):
            continue
        if any(p.kind == "cut" for p in paths) and f.get("unsafe"):
            continue   # algorithm bodies with loops: decided by the held-set engine, not here
        if all_fns and not f.get("reachable"):
            continue   # crate-private helpers are judged inlined into their reachable callers
        if (f.get("trait_item") or "").startswith("lockable::RawLock::"):
            continue   # HL ops / algorithm helpers: returning with the lock held is their contract (M2, E2, E5 decide them)
        leaks = held_exit_obligation(ctx, R, f, paths)
        # the converse: a guard handed back for a lock the call no longer holds (it was released on the way, e.g. by a
        # dropped temporary): the guard's own drop will release a lock this thread does not hold
        from interp import val_contains
        phantom = None
        for p in paths:
            if p.kind != "ret" or p.value is None:
                continue
            for gid, (recv, mode, status) in p.guards.items():
                if recv is None or status != "live" or mode not in ("W", "R"):
                    continue
                if val_contains(p.value, lambda x: x[0] == "op" and (x[1] == gid or x[1].startswith(gid + "."))) and \
                        p.locks.get(recv) != mode and any(e["k"] in ("ACQ", "TRY") and e.get("recv") == recv for e in p.events):
                    phantom = (recv, mode, p)
        if phantom and not leaks:
            recv, mode, p = phantom
            res.bad(Violation(rule, f["path"], "phantom-hold:%s" % mode,
                              "the returned guard stands for %s in mode %s, but the call has already released that lock (state %s): "
                              "the guard's drop will release a lock this thread does not hold (path: %s)" % (
                                  ctx.arg_name(f, recv), mode, p.locks.get(recv), p.trace()[:400]), *_fnloc(ctx, f)))
            continue
        if leaks:
            seen = set()
            for kind, r, m, p in leaks:
                k = (kind, r, m)
                if k in seen:
                    continue
                seen.add(k)
                res.bad(Violation(rule, f["path"], "leak@%s:%s" % (kind, m),
                                  "lock %s acquired in mode %s is still held at %s exit and no returned guard owns it "
                                  "(path: %s)" % (ctx.arg_name(f, r), m, "normal" if kind == "ret" else "unwinding",
                                                  p.trace()[:500]), *_fnloc(ctx, f)))
        else:
            res.ok(f["path"])
    res.need(floor, "acquiring functions")
    return res


def rule_SD(ctx, R):
    """no function acquires (blocking) a receiver it already holds."""
    res = RuleResult("SD", "no self-deadlock inside one call: no blocking acquisition of a receiver the same call already holds")
    for f in entry_fns(ctx):
        paths, err, I = ctx.paths(f)
        if err or any(p.kind == "cut" for p in paths):
            continue
        if not any(e["k"] == "ACQ" for p in paths for e in p.events):
            continue
        bad = [pr for p in paths for pr in p.problems if pr["k"] == "ACQ_WHILE_HELD"]
        if bad:
            res.bad(Violation("SD", f["path"], "acq-while-held", "blocking acquisition of %s while this call already holds it in mode %s"
                              % (ctx.arg_name(f, bad[0]["recv"]), bad[0]["have"]), bad[0].get("file"), bad[0].get("line")))
        else:
            res.ok(f["path"])
    res.need(29, "functions with a blocking acquisition")
    return res
