"""More path rules: key conservation, release API, try failure, closure-once, key constructor,
handle_unwind shape, poisoning."""
from common import RuleResult, Violation
from facts import ty_walk as _tywalk
from interp import State, val_contains, val_ops, loc_s
from rules_ts import analysed_fns, _fnloc
from roles import KEY


def _count_op(v, oid):
    n = 0
    if v is None:
        return 0
    if v[0] == "op":
        return 1 if v[1] == oid else 0
    if v[0] == "agg":
        return sum(_count_op(x, oid) for x in v[4])
    return 0


from facts import ty_walk as ty_walk_


def _key_arg(R, f):
    ks = [k for k in R.key_inputs(f) if k[1] in ("owned", "keyable")]
    return ks[0] if ks else None


def _op_type(ctx, I, f, name, variants):
    """type of the access path `aN.i.j...` below an argument, following the known variant of enum arguments"""
    from facts import ty_subst
    parts = name.split(".")
    if not (parts[0].startswith("a") and parts[0][1:].isdigit()):
        return None
    try:
        t = f["mir"]["locals"][int(parts[0][1:])]["ty"]
    except (IndexError, KeyError):
        return None
    prefix = parts[0]
    for p_ in parts[1:]:
        if t is None:
            return None
        pp = int(p_) if p_.isdigit() else p_
        a = ctx.F.adts.get(t["path"]) if t["k"] == "adt" else None
        if a and a["kind"] == "Enum" and len(a["variants"]) > 1 and isinstance(pp, int):
            k = variants.get(prefix)
            if k is None or pp >= len(a["variants"][k]["fields"]):
                return None
            t = ty_subst(a["variants"][k]["fields"][pp]["ty"], a["generics"], t.get("args", []))
        else:
            t = I.proj_ty(t, pp)
        prefix += "." + p_
    return t


def rule_R1(ctx, R):
    """unlock-style APIs release every lock of the consumed guard before returning its key."""
    res = RuleResult("R1", "RELEASE-API: all locks owned by the consumed guard are released, then its key is returned")
    for f in R.with_role("RELEASE-API"):
        paths, err, I = ctx.paths(f)
        if err:
            res.undecided(f["path"], "analysis", err, *_fnloc(ctx, f))
            continue
        # what the argument guard owns on entry (for an enum carrier: per variant, see Interp.analyze)
        def seeded(variants):
            st0 = State()
            for i in range(1, f["mir"]["arg_count"] + 1):
                t = f["mir"]["locals"][i]["ty"]
                a = ctx.F.adts.get(t["path"]) if t["k"] == "adt" and t.get("local") else None
                if a and a["kind"] == "Enum" and 1 < len(a["variants"]) <= 4:
                    k = variants.get("a%d" % i)
                    if k is not None:
                        from facts import ty_subst
                        for j, fld in enumerate(a["variants"][k]["fields"]):
                            I.seed_arg(st0, I.add_proj(("O", "a%d" % i, ()), j), ty_subst(fld["ty"], a["generics"], t.get("args", [])), 1)
                else:
                    I.seed_arg(st0, ("O", "a%d" % i, ()), t)
            return st0
        rets = [p for p in paths if p.kind == "ret"]

        def variants_of_path(p):
            return {k: v[1] for k, v in p.facts.items() if isinstance(v, tuple) and v and v[0] == "variant" and
                    isinstance(k, str) and k.startswith("a") and k[1:].isdigit()}
        if not any(seeded(variants_of_path(p)).locks or seeded(variants_of_path(p)).guards for p in rets):
            res.undecided(f["path"], "seed", "the consumed guard type owns no recognisable hold", *_fnloc(ctx, f))
            continue
        bad = None
        if not rets:
            bad = "no normal return path"
        for p in rets:
            st0 = seeded(variants_of_path(p))
            for r in st0.locks:
                if p.locks.get(r) != "U":
                    bad = "lock %s owned by the guard is still %s when the key is returned" % (
                        ctx.arg_name(f, r), p.locks.get(r))
            for g in st0.guards:
                if p.guards.get(g, (0, 0, "live"))[2] != "dropped":
                    bad = "guard part %s is not dropped before the key is returned" % ctx.arg_name(f, g)
            # forgetting a *hold* is fine when its lock has been released by hand (checked above: every lock the guard owned
            # is U); forgetting anything else (the key, a carrier) is not
            if any(not (e.get("ty") and e["ty"].get("k") == "adt" and e["ty"].get("path") in R.holdtypes) for e in p.ev("FORGET")):
                bad = "a value is mem::forget-ed in an unlock API"
            v = p.value
            t = I.optype.get(v[1]) if v and v[0] == "op" else None
            if t is None and v and v[0] == "op":
                t = _op_type(ctx, I, f, v[1], variants_of_path(p))
            if not (t and t["k"] == "adt" and t["path"] == KEY and v[1].startswith("a")):
                bad = "returned value is not the key field of the consumed guard (%r)" % (v,)
            if bad:
                res.bad(Violation("R1", f["path"], "return", bad + " (path: %s)" % p.trace()[:300], *_fnloc(ctx, f)))
                break
        if not bad:
            res.ok(f["path"])
    res.need(13, "RELEASE-API functions")
    return res


def rule_R7(ctx, R):
    """whoever returns holding must have been given the key for good."""
    res = RuleResult("R7", "a safe reachable function returns with a lock of its own acquisition still held only if it took an owned "
                           "ThreadKey (which R5 shows is moved into the returned guard): a borrowed or lent key (`&mut ThreadKey`, "
                           "`impl Keyable`) comes back to the caller at return, while the hold would live on")
    from rules_ts import entry_fns
    for f in entry_fns(ctx):
        if f.get("unsafe") or "inputs" not in f:
            continue
        paths, err, I = ctx.paths(f)
        if err or not paths:
            continue
        if not any(e["k"] in ("ACQ", "TRY") for p in paths for e in p.events):
            continue
        if any(p.kind == "cut" for p in paths):
            continue
        bad = None
        for p in paths:
            if p.kind != "ret":
                continue
            held = [r for r, m in p.locks.items() if m in ("W", "R")
                    and any(e["k"] in ("ACQ", "TRY") and e.get("recv") == r for e in p.events)]
            if held and not (R.roles(f) & {"ACQ-GUARD", "REACQ"}):
                bad = "returns while %s is still held, but takes no owned ThreadKey: keys it was lent are usable again at once (path: %s)" % (
                    ", ".join(ctx.arg_name(f, r) for r in held), p.trace()[:300])
                break
        if bad:
            res.bad(Violation("R7", f["path"], "holds-without-key", bad, *_fnloc(ctx, f)))
        else:
            res.ok(f["path"])
    res.need(50, "safe reachable acquiring functions")
    return res


def rule_R5(ctx, R):
    """key conservation in guard-returning acquisitions."""
    res = RuleResult("R5", "ACQ-GUARD: the ThreadKey argument is moved exactly once into the result on every normal path")
    for f in R.with_role("ACQ-GUARD"):
        paths, err, I = ctx.paths(f)
        if err:
            res.undecided(f["path"], "analysis", err, *_fnloc(ctx, f))
            continue
        k = _key_arg(R, f)
        oid = "a%d" % k[0]
        bad = None
        for p in paths:
            if p.kind != "ret":
                continue
            n = _count_op(p.value, oid)
            if n != 1:
                bad = "key argument occurs %d times in the returned value" % n
            for e in p.ev("KEYDROP", "DROPP", "FORGET"):
                if e.get("val") == oid or (e["k"] == "FORGET" and _count_op(e["val"], oid)):
                    bad = "key argument is %s on a normal path" % ("forgotten" if e["k"] == "FORGET" else "dropped")
            if bad:
                res.bad(Violation("R5", f["path"], "key", bad + " (path: %s)" % p.trace()[:300], *_fnloc(ctx, f)))
                break
        if not bad:
            res.ok(f["path"])
    res.need(26, "ACQ-GUARD functions")
    return res


def rule_R4(ctx, R):
    """failed try hands the key back holding nothing and without running user code."""
    res = RuleResult("R4", "TRY: on the failed-acquisition edge nothing is held, no user code ran, Err carries the key")
    for f in R.with_role("TRY"):
        paths, err, I = ctx.paths(f)
        if err:
            res.undecided(f["path"], "analysis", err, *_fnloc(ctx, f))
            continue
        if not any(e["k"] == "TRY" for p in paths for e in p.events) and any(e["k"] == "ACQ" for p in paths for e in p.events):
            # `Result<_, Key>` for another reason (a rejected input): the function blocks, it does not try; the clause below
            # about paths that hand the bare key back still applies
            tryless = True
        else:
            tryless = False
        k = _key_arg(R, f)
        oid = "a%d" % k[0]
        nfail = 0
        bad = None
        for p in paths:
            tries = p.ev("TRY")
            if p.kind != "ret" or not tries or tries[-1].get("outcome") is not False:
                continue
            nfail += 1
            held = [r for r, m in p.locks.items() if m in ("W", "R") and any(e.get("recv") == r for e in tries)]
            v = p.value
            if held:
                bad = "lock %s still held after a failed try" % ctx.arg_name(f, held[0])
            elif p.ev("USER"):
                bad = "user closure ran although the try failed"
            elif not (v and v[0] == "agg" and v[2] == "std::result::Result" and v[3] == 1 and _count_op(v, oid) == 1):
                bad = "failed try does not return Err carrying the key exactly once (%r)" % (v,)
            elif any(e["k"] == "ASSUME" and e["i"] > tries[-1]["i"] for e in p.events):
                bad = "guard/data produced after the try failed"
            if bad:
                res.bad(Violation("R4", f["path"], "fail-edge", bad + " (path: %s)" % p.trace()[:300], *_fnloc(ctx, f)))
                break
        if not bad:
            # the refusal need not come from the try itself: whenever the call answers with the bare key (an Err that carries
            # the key and no guard), everything it acquired has been released again
            for p in paths:
                v = p.value
                if p.kind != "ret" or not (v and v[0] == "agg" and v[2] == "std::result::Result" and v[3] == 1 and _count_op(v, oid) == 1):
                    continue
                gids = [g for g, (r_, m_, status) in p.guards.items() if status == "live"]
                if val_contains(v, lambda x: x[0] == "op" and ((x[2] and x[2][0] == "assume") or
                                                                 any(x[1] == g or x[1].startswith(g + ".") for g in gids))):
                    continue     # the Err carries a guard (a poisoned acquisition): the hold lives on inside it
                held = [r for r, m in p.locks.items() if m in ("W", "R") and any(e.get("recv") == r for e in p.ev("TRY", "ACQ"))]
                if held:
                    bad = "the key is handed back alone (no guard) while %s is still held" % ctx.arg_name(f, held[0])
                    res.bad(Violation("R4", f["path"], "fail-edge", bad + " (path: %s)" % p.trace()[:300], *_fnloc(ctx, f)))
                    break
        if not bad:
            if nfail == 0 and tryless:
                res.ok(f["path"] + " (hands the key back only before acquiring)")
            elif nfail == 0:
                res.bad(Violation("R4", f["path"], "no-fail-edge", "TRY-role function has no failing path: it cannot report "
                                  "contention without waiting", *_fnloc(ctx, f)))
            else:
                res.ok(f["path"])
    res.need(26, "TRY functions")
    return res


def rule_E4r(ctx, R):
    """scoped closure exactly once iff acquired; result passed through."""
    res = RuleResult("E4", "ACQ-SCOPED: closure invoked exactly once iff the acquisition succeeded; its result is returned")
    for f in R.with_role("ACQ-SCOPED"):
        paths, err, I = ctx.paths(f)
        if err:
            res.undecided(f["path"], "analysis", err, *_fnloc(ctx, f))
            continue
        k = _key_arg(R, f)
        oid = "a%d" % k[0]
        is_try = "TRY" in R.roles(f)
        bad = None
        for p in paths:
            users = p.ev("USER")
            tries = p.ev("TRY")
            acquired = bool(p.ev("ACQ")) or (tries and tries[-1].get("outcome") is True)
            # an unwinding acquisition never runs the closure
            if p.kind == "unwind":
                if len(users) > 1:
                    bad = "closure invoked %d times" % len(users)
            elif p.kind == "ret":
                if acquired and len(users) != 1:
                    bad = "closure invoked %d times on the success path" % len(users)
                elif not acquired and users:
                    bad = "closure invoked although nothing was acquired"
                elif acquired:
                    ur = users[0]["result"]
                    v = p.value
                    if is_try:
                        okv = v and v[0] == "agg" and v[2] == "std::result::Result" and v[3] == 0 and _count_op(v, ur) == 1
                    else:
                        okv = v and v[0] == "op" and v[1] == ur
                    if not okv:
                        bad = "closure result is not what the scoped call returns (%r)" % (v,)
                elif not acquired and is_try:
                    v = p.value
                    if not (v and v[0] == "agg" and v[3] == 1 and _count_op(v, oid) == 1):
                        bad = "failure path does not return Err(key)"
            if bad:
                res.bad(Violation("E4", f["path"], "closure-count", bad + " (path: %s)" % p.trace()[:300], *_fnloc(ctx, f)))
                break
        if not bad:
            res.ok(f["path"])
    res.need(26, "ACQ-SCOPED functions")
    return res


def rule_R3key(ctx, R):
    """the key of a scoped call stays owned by the frame until the user closure has returned."""
    res = RuleResult("R3k", "ACQ-SCOPED: key parameter is neither dropped, moved out nor forgotten before the closure returned")
    for f in R.with_role("ACQ-SCOPED"):
        paths, err, I = ctx.paths(f)
        if err:
            res.undecided(f["path"], "analysis", err, *_fnloc(ctx, f))
            continue
        k = _key_arg(R, f)
        oid = "a%d" % k[0]
        bad = None
        for p in paths:
            users = p.ev("USER")
            drops = [e for e in p.events if e["k"] in ("KEYDROP", "DROPP", "MEMDROP", "FORGET") and e.get("val") == oid]
            drops = [e for e in drops if e["k"] != "MEMDROP"]
            if len(drops) > 1:
                bad = "key dropped %d times" % len(drops)
            if users and drops:
                u = users[0]
                # the closure has returned (or unwound) when the next event after USER appears
                if drops[0]["i"] < u["i"]:
                    bad = "key is dropped before the user closure runs (a second key could be obtained inside it)"
            if users and any(_count_op(a, oid) for a in users[0]["args"]):
                bad = "key is passed into the user closure"
            if p.kind == "ret" and not drops and _count_op(p.value, oid) != 1:
                bad = "key neither dropped nor returned on a normal path"
            if bad:
                res.bad(Violation("R3k", f["path"], "key-lifetime", bad + " (path: %s)" % p.trace()[:300], *_fnloc(ctx, f)))
                break
        if not bad:
            res.ok(f["path"])
    res.need(26, "ACQ-SCOPED functions")
    return res


def key_construction_sites(ctx):
    sites = []
    for f in ctx.F.fns:
        m = f.get("mir")
        if not m:
            continue
        for b in m["blocks"]:
            for s in b["stmts"]:
                if s["k"] == "assign" and s["rv"]["k"] == "aggregate" and s["rv"].get("agg") == "adt" \
                        and s["rv"]["path"] == KEY:
                    sites.append((f, s.get("line")))
    return sites


def norm_cell_val(p, v):
    """a cell value as a comparable token: literals, field-less enum variants, and opaque values whose variant / truth the
    path has established"""
    if v is None:
        return None
    if v[0] == "const":
        return ("c", v[1])
    if v[0] == "agg" and v[1] == "adt" and not v[4]:
        return ("v", v[3])
    if v[0] == "op":
        k = p.facts.get(v[1])
        if isinstance(k, bool):
            return ("c", k)
        if isinstance(k, tuple) and k and k[0] == "variant" and isinstance(k[1], int):
            return ("v", k[1])
    return None


def key_flag_clear_value(ctx):
    """the value `Drop for ThreadKey` writes into the thread-local key cell: by definition the `free` state"""
    a = ctx.F.adts.get(KEY)
    if not a or not a.get("drop_fn"):
        return ("c", False)
    paths, err, I = ctx.paths(ctx.F.fn(a["drop_fn"]))
    vals = set()
    for p in paths or []:
        for e in p.ev("CELL_SET"):
            vals.add(norm_cell_val(p, e["val"]))
    vals.discard(None)
    return next(iter(vals)) if len(vals) == 1 else ("c", False)


def observed_clear_then_set(p, clear=("c", False)):
    """the path moves a cell out of its `free` state after having observed it free: `replace(taken)` whose old value is
    free, or a `get()` that read free followed by `set(taken)` on the same cell"""
    def is_free(v):
        return norm_cell_val(p, v) == clear

    def is_taken(v):
        n = norm_cell_val(p, v)
        return n is not None and n != clear
    last_get = {}
    for e in p.events:
        if e["k"] == "CELL_GET":
            last_get[e["recv"]] = e["val"]
        elif e["k"] == "CELL_REPLACE" and is_taken(e["new"]) and is_free(e["old"]):
            return True
        elif e["k"] == "CELL_SET" and is_taken(e["val"]) and e["recv"] in last_get and is_free(last_get[e["recv"]]):
            return True
    return False


def rule_K1(ctx, R):
    """single guarded constructor of ThreadKey."""
    res = RuleResult("K1", "ThreadKey is constructed at one site, only on the edge where the thread-local flag test-and-set "
                           "found it clear; a failed get() constructs (and therefore drops) no key")
    sites = key_construction_sites(ctx)
    if len(sites) != 1:
        res.bad(Violation("K1", "<crate>", "sites", "ThreadKey is constructed at %d sites: %s" % (
            len(sites), sorted("%s:%s" % (f["path"], l) for f, l in sites))))
    # the entry functions through which a freshly constructed key can come into existence (a private `const fn new()` or a
    # closure that holds the struct literal is judged inlined into them)
    from rules_ts import entry_fns
    cg_ = None
    try:
        from rules_cg import cg_of
        cg_ = cg_of(ctx)
    except Exception:
        pass
    site_ids = set(ctx.F.top_fn(f)["id"] for f, _ in sites) | set(f["id"] for f, _ in sites)
    tops = set()
    for f in entry_fns(ctx):
        if f["id"] in site_ids:
            tops.add(f["path"])
        elif cg_ is not None and "inputs" in f and not f["inputs"] and any(x["k"] == "adt" and x["path"] == KEY for x in _tywalk(f["output"])):
            tops.add(f["path"])
    for f, _ in sites:
        t = ctx.F.top_fn(f)
        if t.get("reachable"):
            tops.add(t["path"])
    for top in sorted(tops):
        f = ctx.F.fn(top)
        paths, err, I = ctx.paths(f)
        if err:
            res.undecided(top, "analysis", err, *_fnloc(ctx, f))
            continue
        bad = None
        nsome = nnone = 0
        for p in paths:
            if p.kind != "ret":
                continue
            v = p.value
            reps = p.ev("CELL_REPLACE")
            built = v is not None and val_contains(v, lambda x: x[0] == "agg" and x[2] == KEY)
            drops = [e for e in p.ev("KEYDROP") if e.get("val") == "<constructed>"]
            if built:
                nsome += 1
                ok = observed_clear_then_set(p, key_flag_clear_value(ctx))
                if not ok:
                    bad = "a key is returned on a path where the flag test-and-set did not observe `clear`"
            else:
                nnone += 1
            if drops:
                bad = ("a ThreadKey is constructed before the flag test and dropped when the test fails: its Drop "
                       "clears the flag although the thread's real key is alive, so the next get() succeeds")
            if bad:
                res.bad(Violation("K1", top, "guarded-construction", bad + " (path: %s)" % p.trace()[:300],
                                  *_fnloc(ctx, f)))
                break
        if not bad:
            if nsome == 0 or nnone == 0:
                res.bad(Violation("K1", top, "shape", "constructor has %d key-returning and %d refusing paths" % (nsome, nnone),
                                  *_fnloc(ctx, f)))
            else:
                res.ok(top)
    res.need(1, "functions constructing ThreadKey")
    return res


def _g1_judge(ctx, f):
    """None if f follows the protocol `try once under catch_unwind; handler only on the Err outcome; then resume`, else
    (kind, message); kind 'analysis' = undecided"""
    paths, err, I = ctx.paths(f)
    if err:
        return ("analysis", err)
    bad = None
    seen_ok = seen_unw = False
    for p in paths:
        users = p.ev("USER")
        caught = p.ev("CAUGHT")
        begins = p.ev("CATCH_BEGIN")
        ends = p.ev("CATCH_END") + caught
        b0 = begins[0]["i"] if begins else -1
        e0 = min([e["i"] for e in ends]) if ends else len(p.events)
        # whichever parameter (or field of `self`) carries them: the callable run under catch_unwind is the try, the one
        # run after the catch is the handler; nothing else may be called
        tr = [u for u in users if b0 < u["i"] < e0] if begins else []
        ca = [u for u in users if caught and u["i"] > caught[0]["i"]]
        stray = [u for u in users if u not in tr and u not in ca]
        if stray:
            bad = "a callable is invoked outside the catch scope and outside the handler position"
        if bad:
            pass
        elif len(tr) != 1:
            bad = "try closure invoked %d times" % len(tr)
        elif not caught:
            if ca:
                bad = "handler runs although the try closure did not unwind"
            elif p.kind == "ret":
                seen_ok = True
                if not (p.value and p.value[0] == "op" and p.value[1] == tr[0]["result"]):
                    bad = "result of the try closure is not returned"
        else:
            if p.kind == "ret":
                bad = "a caught panic is swallowed: the function returns normally after the handler"
            elif len(ca) != 1:
                bad = "handler invoked %d times after a caught panic" % len(ca)
            elif p.kind == "unwind":
                seen_unw = True
            if ca and caught and ca[0]["i"] < caught[0]["i"]:
                bad = "handler runs before the panic is caught"
        if bad:
            return ("shape", bad + " (path: %s)" % p.trace()[:300])
    if not (seen_ok and seen_unw):
        return ("shape", "missing success or unwinding path")
    return None


def rule_G1(ctx, R):
    """handle_unwind is catch -> handler -> resume."""
    res = RuleResult("G1", "handle_unwind (every function that calls catch_unwind): try once under catch_unwind; handler only on "
                           "the Err outcome; then resume_unwind")
    if not ctx.A.handle_unwinds:
        res.undecided("<handle_unwind>", "anchor", "no function calls catch_unwind")
        res.need(1, "handle_unwind")
        return res
    for path in ctx.A.handle_unwinds:
        f = ctx.F.fn(path)
        j = _g1_judge(ctx, f)
        if j is None:
            res.ok(f["path"])
        elif j[0] == "analysis":
            res.undecided(f["path"], "analysis", j[1], *_fnloc(ctx, f))
        else:
            res.bad(Violation("G1", f["path"], "shape", j[1], *_fnloc(ctx, f)))
    res.need(1, "handle_unwind")
    return res


def call_sites(ctx, pred):
    out = []
    for f in ctx.F.fns:
        m = f.get("mir")
        if not m:
            continue
        for b in m["blocks"]:
            t = b["term"]
            if t["k"] in ("call", "tailcall") and t["callee"]["k"] == "fndef" and pred(t["callee"]):
                out.append((f, t))
    return out


def rule_G2(ctx, R):
    res = RuleResult("G2", "catch_unwind is called nowhere but in functions that follow the handle_unwind protocol (no panic is "
                           "swallowed anywhere)")
    sites = call_sites(ctx, lambda c: c["def"] == "std::panic::catch_unwind")
    for f, t in sites:
        top = ctx.F.top_fn(f)
        j = _g1_judge(ctx, top) if top["kind"] != "Closure" else ("shape", "catch_unwind inside a closure")
        if j is None:
            res.ok("positive control: " + f["path"])
        else:
            res.bad(Violation("G2", top["path"], "catch_unwind", "catch_unwind outside handle_unwind: %s does not follow the "
                              "catch -> handler -> resume protocol (%s)" % (top["path"], j[1][:200]), f["span"]["file"], t.get("line")))
    res.need(1, "catch_unwind call sites (positive control)")
    return res


def rule_R6(ctx, R):
    """the key of a consumed guard is released only after the guard's holds."""
    res = RuleResult("R6", "any safe function consuming a key carrier: if it drops (or returns) the carrier's key, every lock and guard "
                           "part the carrier owned has been released first - the holds never outlive the key")
    from roles import contains_by_value
    for f in ctx.F.fns:
        if "inputs" not in f or f.get("unsafe") or not f.get("reachable") or "mir" not in f:
            continue
        idx = [i for i, t in enumerate(f["inputs"]) if t["k"] == "adt" and t["path"] in R.key_carriers]
        if not idx:
            continue
        paths, err, I = ctx.paths(f)
        if err:
            res.undecided(f["path"], "analysis", err, *_fnloc(ctx, f))
            continue
        st0 = State()
        for i in idx:
            I.seed_arg(st0, ("O", "a%d" % (i + 1), ()), f["mir"]["locals"][i + 1]["ty"])
        if not st0.locks and not st0.guards:
            res.ok(f["path"] + " (carrier owns no recognisable hold)")
            continue
        bad = None
        for p in paths:
            # the holds of a key-carrying guard never go to user code by value (a closure could stash them: they would
            # outlive the guard - and the key inside it - that stands for them)
            for e in p.ev("USER"):
                for a_ in e.get("args", []):
                    if a_ and a_[0] == "op" and any(a_[1] == g or a_[1].startswith(g + ".") for g in st0.guards):
                        bad = ("the holds of the consumed guard (%s) are passed by value to user code: they can be moved somewhere "
                               "that outlives the guard and its key" % ctx.arg_name(f, a_[1]))
            if p.kind != "ret":
                continue
            key_released = any(e["k"] == "KEYDROP" and str(e.get("val", "")).startswith("a") for e in p.events)
            v = p.value
            t = I.optype.get(v[1]) if v and v[0] == "op" else None
            key_returned = bool(t and t["k"] == "adt" and t["path"] == KEY)
            if not (key_released or key_returned):
                continue   # the carrier (or its key inside another carrier) lives on
            for r in st0.locks:
                if p.locks.get(r) != "U":
                    bad = "the key is given back while lock %s owned by the consumed guard is still %s" % (ctx.arg_name(f, r), p.locks.get(r))
            for g in st0.guards:
                if p.guards.get(g, (0, 0, "live"))[2] != "dropped":
                    bad = "the key is given back while guard part %s is still alive (returned, stored or forgotten)" % ctx.arg_name(f, g)
        if bad:
            res.bad(Violation("R6", f["path"], "key-before-holds", bad, *_fnloc(ctx, f)))
        else:
            res.ok(f["path"])
    res.need(13, "safe functions consuming key carriers")
    return res


def _x4_gap(events, r, carrier_root=None):
    """release / re-acquisition of r between the consumed and the returned guard - unless the window is handed to the caller
    as a place to run code (a user callable invoked between the release and the re-acquisition, as in
    `unlocked(guard, |key| ..)`): then the two sections are two sections by the API's own contract"""
    gap = [e for e in events if e["k"] in ("REL", "ACQ", "TRY") and e.get("recv") == r]
    if not gap:
        # a guard part dropped as a whole (generic collection guards) followed by a new acquisition through the same receiver
        return gap
    rel = next((e for e in gap if e["k"] == "REL"), None)
    acq = next((e for e in gap if e["k"] in ("ACQ", "TRY") and (rel is None or e.get("i", 0) > rel.get("i", 0))), None)
    if rel is not None and acq is not None and any(e["k"] == "USER" and rel.get("i", 0) < e.get("i", 0) < acq.get("i", 0) for e in events):
        return []
    return gap


def rule_X4(ctx, R):
    """a guard handed in and a guard handed back are one continuous hold."""
    res = RuleResult("X4", "continuity: a safe function that consumes a guard (key carrier or hold) and returns a guard never releases "
                           "or re-acquires, in between, a lock the consumed guard held - the section the caller sees as one is one "
                           "(no window in which another thread's exclusive section can run)")
    from roles import contains_by_value
    carriers = set(R.key_carriers) | set(R.holdtypes)
    n = 0
    for f in ctx.F.fns:
        if "inputs" not in f or f.get("unsafe") or not f.get("reachable") or "mir" not in f:
            continue
        if not any(t["k"] == "adt" and t["path"] in carriers for t in f["inputs"]):
            continue
        if not any(x["k"] == "adt" and x["path"] in carriers for x in ty_walk_(f["output"])):
            continue
        paths, err, I = ctx.paths(f)
        if err:
            res.undecided(f["path"], "analysis", err, *_fnloc(ctx, f))
            continue
        n += 1
        bad = None
        for p in paths:
            if p.kind != "ret" or p.value is None:
                continue
            st0 = State()
            vs = {k: v[1] for k, v in p.facts.items() if isinstance(v, tuple) and v and v[0] == "variant" and isinstance(k, str)}
            for i in range(1, f["mir"]["arg_count"] + 1):
                t = f["mir"]["locals"][i]["ty"]
                a = ctx.F.adts.get(t["path"]) if t["k"] == "adt" and t.get("local") else None
                if a and a["kind"] == "Enum" and 1 < len(a["variants"]) <= 4:
                    k = vs.get("a%d" % i)
                    if k is not None:
                        from facts import ty_subst
                        for j, fld in enumerate(a["variants"][k]["fields"]):
                            I.seed_arg(st0, I.add_proj(("O", "a%d" % i, ()), j), ty_subst(fld["ty"], a["generics"], t.get("args", [])), 1)
                else:
                    I.seed_arg(st0, ("O", "a%d" % i, ()), t)
            # does the result still carry a hold? (a returned key alone is an unlock API: R1/R6)
            if not val_contains(p.value, lambda x: x[0] == "agg" and x[1] == "adt" and x[2] in carriers and x[2] != KEY):
                continue
            for r in st0.locks:
                gap = _x4_gap(p.events, r)
                if gap:
                    bad = "%s is %s between the guard handed in and the guard handed back (path: %s)" % (
                        ctx.arg_name(f, r), "released" if gap[0]["k"] == "REL" else "re-acquired", p.trace()[:300])
        if bad:
            res.bad(Violation("X4", f["path"], "continuity", bad, *_fnloc(ctx, f)))
        else:
            res.ok(f["path"])
    res.notes.append("%d guard-to-guard functions" % n)
    # the expected count on this tree is zero: keep the predicate honest with a built-in positive example on every run
    # (release + try of the consumed guard's lock, as in a non-atomic `try_upgrade`) and a negative one
    pos = [{"k": "REL", "recv": "a1.0.0.*", "mode": "R", "i": 0}, {"k": "TRY", "recv": "a1.0.0.*", "mode": "W", "i": 1}]
    neg = [{"k": "REL", "recv": "a1.0.0.*", "mode": "W", "i": 0}, {"k": "USER", "i": 1}, {"k": "ACQ", "recv": "a1.0.0.*", "mode": "W", "i": 2}]
    if not _x4_gap(pos, "a1.0.0.*") or _x4_gap(neg, "a1.0.0.*"):
        res.undecided("<X4>", "selfcheck", "the continuity predicate does not recognise its own positive example")
    else:
        res.ok("positive control: release + re-acquire of the consumed guard's lock is recognised")
    res.need(1, "continuity predicate control")
    return res


def rule_R8(ctx, R):
    """nothing of the user's runs between giving the key up and releasing the locks."""
    res = RuleResult("R8", "once a function has given up the key it was handed (the key parameter is dropped), no user code runs - "
                           "no user callable is invoked and no value of a user-chosen type is destroyed - while a lock acquired by "
                           "the call is still held: such code could obtain the thread's key and lock something else while holding")
    from rules_ts import entry_fns
    n = 0
    for f in entry_fns(ctx):
        if f.get("unsafe") or "inputs" not in f:
            continue
        ks = [k for k in R.key_inputs(f) if k[1] in ("owned", "keyable")]
        if not ks:
            continue
        paths, err, I = ctx.paths(f)
        if err or not paths:
            continue
        if not any(e["k"] in ("ACQ", "TRY") for p in paths for e in p.events):
            continue
        n += 1
        koid = "a%d" % ks[0][0]
        bad = None
        for p in paths:
            if p.kind == "cut":
                continue
            kd = next((e for e in p.events if e["k"] in ("DROPP", "KEYDROP") and e.get("val") == koid), None)
            if kd is None:
                continue
            held = {}
            for e in p.events:
                if e["i"] > kd["i"]:
                    break
                if e["k"] == "ACQ" or (e["k"] == "TRY" and e.get("outcome") is True):
                    held[e["recv"]] = e["i"]
                elif e["k"] in ("REL", "KILL") and e.get("recv") in held:
                    del held[e["recv"]]
                elif e["k"] == "UNWIND_AT" and e.get("recv") in held and held[e["recv"]] == e["i"] - 1:
                    del held[e["recv"]]      # the acquisition itself unwound: nothing was taken
            held = {r: i for r, i in held.items() if p.locks.get(r) in ("W", "R") or
                    any(x["k"] in ("REL", "KILL") and x.get("recv") == r and x["i"] > kd["i"] for x in p.events)}
            if not held:
                continue
            for e in p.events:
                if e["i"] <= kd["i"]:
                    continue
                if e["k"] in ("REL", "KILL") and e.get("recv") in held:
                    del held[e["recv"]]
                    if not held:
                        break
                    continue
                user = e["k"] == "USER" or (e["k"] == "DROPP" and e.get("val") != koid and not str(e.get("val", "")).startswith(koid + ".")
                                            and e.get("ty") not in R.keyable_params(f))
                if user:
                    what = "a user callable is invoked" if e["k"] == "USER" else "a value of the user-chosen type %s is destroyed" % e.get("ty")
                    bad = "%s after the key was given up and before %s is released (path: %s)" % (
                        what, ", ".join(ctx.arg_name(f, r) for r in held), p.trace()[:300])
                    break
            if bad:
                break
        if bad:
            res.bad(Violation("R8", f["path"], "user-code-after-key", bad, *_fnloc(ctx, f)))
        else:
            res.ok(f["path"])
    res.need(26, "acquiring functions that take the key")
    return res


def rule_X3(ctx, R):
    """acquisition mode matches the kind of access handed out."""
    res = RuleResult("X3", "read-flavoured APIs acquire shared, write-flavoured APIs acquire exclusive: the mode of every acquisition "
                           "equals the mode of the access it then hands out (a shared view behind an exclusive lock would make readers "
                           "exclude each other and try_read refuse read-held locks)")
    for f in R.with_role("ACQ-SCOPED") + R.with_role("ACQ-GUARD"):
        if f.get("unsafe"):
            continue
        paths, err, I = ctx.paths(f)
        if err:
            continue
        bad = None
        for p in paths:
            acq = [e for e in p.events if e["k"] == "ACQ" or (e["k"] == "TRY" and e.get("outcome") is True)]
            if not acq:
                continue
            for a in p.ev("ASSUME"):
                need = a["mode"]
                have = next((x["mode"] for x in reversed(acq) if x["recv"] == a["recv"] and x["i"] < a["i"]), None)
                if have is None:
                    continue
                if a.get("op") == "cell_ref" and have != "R":
                    bad = "hands out a shared view of %s after acquiring it in mode %s" % (ctx.arg_name(f, a["recv"]), have)
                if a.get("op") == "cell_mut" and have != "W":
                    bad = "hands out an exclusive view of %s after acquiring it in mode %s" % (ctx.arg_name(f, a["recv"]), have)
        if bad:
            res.bad(Violation("X3", f["path"], "mode-of-access", bad, *_fnloc(ctx, f)))
        else:
            res.ok(f["path"])
    res.need(52, "acquiring APIs")
    return res
