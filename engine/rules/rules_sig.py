"""Signature / impl-table / visibility rules (family `sig`) and call-graph rules (family `cg`)."""
from common import RuleResult, Violation
from facts import ty_walk
from roles import KEY, KEYABLE, FN_TRAITS, by_value_types, contains_by_value

SEND = "std::marker::Send"
SYNC = "std::marker::Sync"


def _floc(f):
    return f["span"]["file"], f["span"]["line"]


def _self_path(imp):
    st = imp["self_ty"]
    return st["path"] if st["k"] == "adt" else st["s"]


def impls_for_adt(ctx, path):
    return [i for i in ctx.F.impls if i.get("trait") and i["self_ty"]["k"] == "adt" and i["self_ty"]["path"] == path]


# ---- C06 / C14: the key ---------------------------------------------------
def rule_K3(ctx, R):
    res = RuleResult("K3", "impl table of ThreadKey / Keyable / Sealed: no Clone/Copy/Default/Send/From/ToOwned; Keyable only for "
                           "ThreadKey and &mut ThreadKey; Sealed is a private supertrait")
    F = ctx.F
    DENY = ("std::clone::Clone", "std::marker::Copy", "std::default::Default", SEND, "std::convert::From",
            "std::borrow::ToOwned", "std::convert::Into")
    if KEY not in F.adts:
        res.undecided(KEY, "anchor", "type key::ThreadKey not found")
        return res
    for i in impls_for_adt(ctx, KEY):
        tr = i["trait"]
        if tr in DENY and i.get("polarity") != "Negative":
            res.bad(Violation("K3", KEY, "impl " + tr, "ThreadKey implements %s: keys can be duplicated/forged/sent" % tr,
                              i["span"]["file"], i["span"]["line"]))
        else:
            res.ok("impl %s for ThreadKey" % tr)
    # any impl (for any type) whose methods manufacture a key without consuming one is caught by S2.
    kimpls = F.impls_of(KEYABLE)
    for i in kimpls:
        st = i["self_ty"]
        good = (st["k"] == "adt" and st["path"] == KEY) or \
               (st["k"] == "ref" and st["mut"] and st["ty"]["k"] == "adt" and st["ty"]["path"] == KEY)
        if good:
            res.ok("Keyable for " + st["s"])
        else:
            res.bad(Violation("K3", KEYABLE, "impl for " + st["s"], "Keyable implemented for %s: a key-like value that is "
                              "not the thread's unique key is accepted by every scoped API" % st["s"],
                              i["span"]["file"], i["span"]["line"]))
    kt = F.traits.get(KEYABLE)
    if not kt:
        res.undecided(KEYABLE, "anchor", "trait Keyable not found")
    else:
        if not kt["unsafe"]:
            res.bad(Violation("K3", KEYABLE, "unsafe", "Keyable is not an unsafe trait", kt["span"]["file"], kt["span"]["line"]))
        sealed = [s for s in kt["supertraits"] if s in F.traits and not F.traits[s].get("exported", True)]
        if not sealed:
            res.bad(Violation("K3", KEYABLE, "sealed", "Keyable has no crate-private supertrait: foreign crates can implement it",
                              kt["span"]["file"], kt["span"]["line"]))
        else:
            res.ok("Keyable sealed by " + sealed[0])
            for i in F.impls_of(sealed[0]):
                st = i["self_ty"]
                good = (st["k"] == "adt" and st["path"] == KEY) or \
                       (st["k"] == "ref" and st["mut"] and st["ty"]["k"] == "adt" and st["ty"]["path"] == KEY)
                if not good:
                    res.bad(Violation("K3", sealed[0], "impl for " + st["s"], "sealing trait implemented for " + st["s"],
                                      i["span"]["file"], i["span"]["line"]))
                else:
                    res.ok("Sealed for " + st["s"])
    # the key's only field is private and makes it !Send
    a = F.adts[KEY]
    for fld in a["variants"][0]["fields"]:
        if fld["vis"] == "pub":
            res.bad(Violation("K3", KEY, "field " + fld["name"], "ThreadKey has a public field: it can be built by struct literal",
                              a["span"]["file"], a["span"]["line"]))
    if not any(any(x["k"] == "ptr" for x in ty_walk(fld["ty"])) for fld in a["variants"][0]["fields"]):
        res.bad(Violation("K3", KEY, "not-send-marker", "ThreadKey has no raw-pointer marker field: it would be Send automatically",
                          a["span"]["file"], a["span"]["line"]))
    else:
        res.ok("ThreadKey is !Send by a raw-pointer marker")
    res.need(8, "impl-table entries")
    return res


def rule_S1(ctx, R):
    res = RuleResult("S1", "every field of every key-carrier struct and every hold type is private")
    for p in sorted(R.key_carriers | set(R.holdtypes) | {KEY, "poisonable::PoisonRef"}):
        a = ctx.F.adts.get(p)
        if a is None:
            continue
        if a["kind"] != "Struct":
            res.ok(p + " (enum: payload only reachable by consuming match)")
            continue
        bad = [f for f in a["variants"][0]["fields"] if f["vis"] == "pub"]
        if bad:
            res.bad(Violation("S1", p, "field " + bad[0]["name"], "field `%s` of %s is public: the key/hold can be moved out "
                              "of the guard by safe code" % (bad[0]["name"], p), a["span"]["file"], a["span"]["line"]))
        else:
            res.ok(p)
    res.need(9, "key carriers and hold types")
    return res


def rule_S2(ctx, R):
    """key conservation at signature level"""
    res = RuleResult("S2", "no safe function yields a ThreadKey/&mut ThreadKey/key carrier unless it consumes a key or carrier "
                           "by value (single exception: the guarded constructor)")
    from rules_ts2 import key_construction_sites
    ctor = set(ctx.F.top_fn(f)["path"] for f, _ in key_construction_sites(ctx))
    # the one function with no inputs that yields a key is the guarded constructor (K1/K2 decide that it is guarded), wherever
    # the struct literal itself lives (a private `const fn new()`, a closure)
    ctor |= set(f["path"] for f in ctx.F.fns if f.get("reachable") and "inputs" in f and not f["inputs"]
                and any(x["k"] == "adt" and x["path"] == KEY for x in ty_walk(f["output"])))
    paths = {KEY} | R.key_carriers
    for f in ctx.F.fns:
        if "inputs" not in f or f.get("unsafe") or not f.get("reachable"):
            continue
        out = f["output"]
        gives = contains_by_value(out, paths) or any(
            x["k"] == "ref" and x["mut"] and x["ty"]["k"] == "adt" and x["ty"]["path"] == KEY for x in ty_walk(out))
        if not gives:
            continue
        takes = any(contains_by_value(t, paths) for t in f["inputs"])
        # `&mut ThreadKey` -> `&mut ThreadKey` re-borrows are fine too
        takes = takes or any(t["k"] == "ref" and t["mut"] and t["ty"]["k"] == "adt" and t["ty"]["path"] == KEY for t in f["inputs"])
        if takes or f["path"] in ctor:
            res.ok(f["path"])
        else:
            res.bad(Violation("S2", f["path"], "signature", "safe function returns %s without consuming a key or guard: "
                              "a second usable key can be obtained" % out["s"], *_floc(f)))
    res.need(40, "safe functions returning a key or key carrier")
    return res


def rule_S3(ctx, R):
    res = RuleResult("S3", "no safe reachable API accepts a shared or unique *reference* to ThreadKey in place of the key "
                           "(guard-returning APIs take it by value; scoped APIs take `impl Keyable`)")
    n = 0
    for f in ctx.F.fns:
        if "inputs" not in f or f.get("unsafe") or not f.get("reachable"):
            continue
        for i, t in enumerate(f["inputs"]):
            if t["k"] == "ref" and t["ty"]["k"] == "adt" and t["ty"]["path"] == KEY:
                tr = f.get("trait_item") or ""
                if tr.startswith("std::fmt::") or tr.startswith("std::ops::Drop"):
                    res.ok(f["path"])
                    continue
                res.bad(Violation("S3", f["path"], "input %d" % (i + 1), "API takes %s: a borrowed key does not surrender "
                                  "the thread's key for the duration of the hold" % t["s"], *_floc(f)))
    for f in R.with_role("ACQ-GUARD") + R.with_role("ACQ-SCOPED"):
        res.ok(f["path"])
    res.need(54, "key-taking APIs")
    return res


def rule_S5(ctx, R):
    res = RuleResult("S5", "no guard type handed out behind `&mut` (DerefMut/AsMut of key carriers) can be replaced by a "
                           "key-less value of the same type (solver probe: `Guard: Default`)")
    # which carriers expose &mut to their generic guard payload?
    exposing = []
    for i in ctx.F.impls:
        if i.get("trait") in ("std::ops::DerefMut", "std::convert::AsMut") and i["self_ty"]["k"] == "adt" \
                and i["self_ty"]["path"] in (R.key_carriers | {"poisonable::PoisonRef"}):
            exposing.append(i["self_ty"]["path"])
    if not exposing:
        res.notes.append("no key carrier exposes &mut to its payload")
    for pr in ctx.F.probes["assoc_default"]:
        if pr["name"] not in ("Guard", "ReadGuard"):
            continue
        imp = ctx.F.impl_by_id.get(pr["impl"])
        st = imp["self_ty"]["s"] if imp else "?"
        inst = "%s::%s = %s" % (st, pr["name"], pr["ty"]["s"])
        if pr["default"] and exposing:
            res.bad(Violation("S5", "<%s as %s>" % (st, imp["trait"]), pr["name"],
                              "guard type %s implements Default and collection guards expose `&mut` to it (%s): "
                              "`mem::take(&mut *guard)` moves every hold out, `unlock(guard)` then returns the key while the "
                              "locks are still held" % (pr["ty"]["s"], ", ".join(sorted(set(exposing)))),
                              imp["span"]["file"], imp["span"]["line"]))
        else:
            res.ok(inst)
    res.need(37, "Guard/ReadGuard associated types")
    return res


# ---- C15 --------------------------------------------------------------------
# Reference table: for each type with a manual auto-trait impl, the bounds the impl must at least require.
# (arg index in the ADT's generic argument list, required trait), one line of reason each.
AUTO_TABLE = {
    ("mutex::Mutex", SEND): [(0, SEND, "sending the mutex sends the T inside")],
    ("mutex::Mutex", SYNC): [(0, SEND, "a shared mutex hands &mut T to whichever thread locks it"),
                             (1, SYNC, "the raw lock is used through &R from several threads")],
    ("rwlock::RwLock", SEND): [(0, SEND, "sending the lock sends the T inside")],
    ("rwlock::RwLock", SYNC): [(0, SEND, "writers on other threads get &mut T"),
                               (0, SYNC, "several readers on different threads hold &T at the same time"),
                               (1, SYNC, "the raw lock is used through &R from several threads")],
    ("mutex::MutexRef", SYNC): [(0, SYNC, "&MutexRef gives &T")],
    ("rwlock::RwLockReadRef", SYNC): [(0, SYNC, "&RwLockReadRef gives &T")],
    ("rwlock::RwLockWriteRef", SYNC): [(0, SYNC, "&RwLockWriteRef gives &T")],
    ("collection::BoxedLockCollection", SEND): [(0, SEND, "owns an L on the heap")],
    ("collection::BoxedLockCollection", SYNC): [(0, SYNC, "&collection gives &L")],
    ("collection::RefLockCollection", SEND): [(0, SYNC, "holds &L: sending it shares L with another thread")],
    ("collection::RefLockCollection", SYNC): [(0, SYNC, "holds &L")],
    (KEY, SYNC): [],  # by design: a &ThreadKey is useless (no API takes one: rule S3)
}


def rule_A1(ctx, R):
    res = RuleResult("A1", "manual Send/Sync impls require at least the bounds of the reference table (std's Mutex/RwLock rules)")
    for i in ctx.F.impls:
        tr = i.get("trait")
        if tr not in (SEND, SYNC) or i.get("polarity") == "Negative":
            continue
        st = i["self_ty"]
        if st["k"] != "adt":
            res.bad(Violation("A1", st["s"], tr, "manual %s impl for non-ADT %s" % (tr, st["s"]), i["span"]["file"], i["span"]["line"]))
            continue
        key = (st["path"], tr)
        if key not in AUTO_TABLE:
            res.bad(Violation("A1", st["path"], "unlisted " + tr.split("::")[-1],
                              "manual `unsafe impl %s for %s` is not in the reference table: its soundness was never argued"
                              % (tr.split("::")[-1], st["s"]), i["span"]["file"], i["span"]["line"]))
            continue
        targs = [a for a in st["args"] if a["k"] != "region"]
        missing = []
        for idx, need, why in AUTO_TABLE[key]:
            if idx >= len(targs) or targs[idx]["k"] != "param":
                continue
            pname = targs[idx]["name"]
            have = any(p["k"] == "trait" and p["trait"] == need and p["self"]["k"] == "param" and p["self"]["name"] == pname
                       for p in i["predicates"])
            if not have:
                missing.append("%s: %s (%s)" % (pname, need.split("::")[-1], why))
        if missing:
            res.bad(Violation("A1", st["path"], tr.split("::")[-1],
                              "`unsafe impl %s for %s` lacks the bound(s) %s" % (tr.split("::")[-1], st["s"], "; ".join(missing)),
                              i["span"]["file"], i["span"]["line"]))
        else:
            res.ok("%s for %s" % (tr.split("::")[-1], st["s"]))
    res.need(12, "manual Send/Sync impls")
    return res


def rule_A2(ctx, R):
    res = RuleResult("A2", "the data argument of every scoped closure is bound by a higher-ranked lifetime, not by a lifetime "
                           "parameter of the function that the result could carry out")
    for f in R.with_role("ACQ-SCOPED"):
        fp = R.fn_params(f)
        cl = R.closure_inputs(f)
        bad = None
        for _, pname in cl:
            pred = fp[pname]
            # args[0] of Fn*<Args> is the tuple of closure inputs
            for a in pred["args"]:
                if a["k"] in ("region", "const"):
                    continue
                for x in ty_walk(a):
                    regs = []
                    if x["k"] == "ref":
                        regs.append(x["region"])
                    if x["k"] in ("adt", "alias"):
                        regs += [r["r"] for r in x.get("args", []) if r["k"] == "region"]
                    for r in regs:
                        if r["k"] in ("early", "late", "static"):
                            bad = "closure parameter type `%s` mentions the caller-chosen lifetime %s" % (
                                a["s"], r.get("name") or r.get("s") or r["k"])
        if bad:
            res.bad(Violation("A2", f["path"], "closure-arg-region",
                              bad + ": `|d| d` returns the protected reference out of the scoped call, outliving the hold",
                              *_floc(f)))
        else:
            res.ok(f["path"])
    res.need(26, "ACQ-SCOPED functions")
    return res


def rule_A3(ctx, R):
    res = RuleResult("A3", "hold types borrow their lock by reference; shared holds (and their guards) offer no DerefMut/AsMut")
    read_types = set(p for p, (fld, mode) in R.holdtypes.items() if mode == "R")
    # carriers of read holds
    for a in ctx.F.adts.values():
        for v in a["variants"]:
            for fld in v["fields"]:
                if contains_by_value(fld["ty"], read_types):
                    read_types.add(a["path"])
    for p, (fld, mode) in sorted(R.holdtypes.items()):
        a = ctx.F.adts[p]
        t = a["variants"][0]["fields"][fld]["ty"]
        if t["k"] != "ref" or t["mut"] or t["region"]["k"] != "early":
            res.bad(Violation("A3", p, "lock-field", "hold type does not borrow its lock with a lifetime parameter (%s)" % t["s"],
                              a["span"]["file"], a["span"]["line"]))
        else:
            res.ok(p + " borrows its lock")
    for p in sorted(read_types):
        bad = [i for i in impls_for_adt(ctx, p) if i["trait"] in ("std::ops::DerefMut", "std::convert::AsMut", "std::borrow::BorrowMut")]
        if bad:
            res.bad(Violation("A3", p, bad[0]["trait"], "shared hold %s implements %s: writes under a read lock" % (p, bad[0]["trait"]),
                              bad[0]["span"]["file"], bad[0]["span"]["line"]))
        else:
            res.ok(p + " has no mutable access")
    res.need(5, "hold types and read guards")
    return res


def rule_A4(ctx, R):
    res = RuleResult("A4", "unsafe markers: RawLock/Lockable/Sharable/OwnedLockable/Keyable are unsafe traits, their acquiring, "
                           "releasing and assuming methods are unsafe fns, and accessors returning the raw lock are unsafe")
    F = ctx.F
    for t in ("lockable::RawLock", "lockable::Lockable", "lockable::Sharable", "lockable::OwnedLockable", KEYABLE):
        tr = F.traits.get(t)
        if tr is None:
            res.undecided(t, "anchor", "trait not found")
        elif not tr["unsafe"]:
            res.bad(Violation("A4", t, "unsafe trait", "%s is not an `unsafe trait`: safe code can implement it and break the "
                              "invariants the collections rely on" % t, tr["span"]["file"], tr["span"]["line"]))
        else:
            res.ok("unsafe trait " + t)
    need_unsafe = {"lockable::RawLock": ("raw_write", "raw_try_write", "raw_unlock_write", "raw_read", "raw_try_read", "raw_unlock_read"),
                   "lockable::Lockable": ("guard", "data_mut"), "lockable::Sharable": ("read_guard", "data_ref")}
    for t, names in need_unsafe.items():
        tr = F.traits.get(t)
        if tr is None:
            continue
        items = {it["name"]: it for it in tr["items"]}
        for n in names:
            it = items.get(n)
            if it is None:
                res.undecided(t, n, "method not found")
            elif not it.get("unsafe"):
                res.bad(Violation("A4", t, n, "%s::%s is a safe fn: safe code can %s without a key" % (
                    t, n, "assume a lock is held" if t != "lockable::RawLock" else "acquire/release"), tr["span"]["file"], tr["span"]["line"]))
            else:
                res.ok("unsafe fn %s::%s" % (t, n))
    # raw-lock accessors
    for f in F.fns:
        if "inputs" not in f or not f.get("reachable"):
            continue
        imp = F.impl_of_fn(f)
        if not imp or imp["self_ty"]["k"] != "adt" or imp["self_ty"]["path"] not in ("mutex::Mutex", "rwlock::RwLock"):
            continue
        targs = [a for a in imp["self_ty"]["args"] if a["k"] != "region"]
        rawp = targs[1]["name"] if len(targs) > 1 and targs[1]["k"] == "param" else None
        if rawp and any(x["k"] == "param" and x["name"] == rawp for x in ty_walk(f["output"])) \
                and f["output"]["k"] in ("ref", "ptr"):
            if f.get("unsafe"):
                res.ok("unsafe accessor " + f["path"])
            else:
                res.bad(Violation("A4", f["path"], "raw accessor", "safe function exposes the raw lock (%s): it can be "
                                  "locked/unlocked behind happylock's back" % f["output"]["s"], *_floc(f)))
    res.need(16, "unsafe markers")
    return res


def rule_O1(ctx, R):
    res = RuleResult("O1", "OwnedLockCollection gives no shared access to its members: no safe `&self` method or trait impl "
                           "returns anything typed by L, other than the key-taking acquisitions")
    P = "collection::OwnedLockCollection"
    DENY_TRAITS = ("std::convert::AsRef", "std::ops::Deref", "std::borrow::Borrow", "std::clone::Clone")
    n = 0
    for i in ctx.F.impls:
        st = i["self_ty"]
        target = st
        shared_self = False
        if st["k"] == "ref" and not st["mut"]:
            target = st["ty"]
            shared_self = True
        if target["k"] != "adt" or target["path"] != P:
            continue
        tr = i.get("trait")
        if tr in DENY_TRAITS or (shared_self and tr == "std::iter::IntoIterator"):
            res.bad(Violation("O1", P, "impl " + tr + (" for &Self" if shared_self else ""),
                              "OwnedLockCollection implements %s%s: members become lockable on their own, outside the "
                              "collection's fixed order" % (tr, " for &Self" if shared_self else ""),
                              i["span"]["file"], i["span"]["line"]))
        lparams = [a["name"] for a in target["args"] if a["k"] == "param"]
        for it in i["items"]:
            f = ctx.F.fn_by_id.get(it["id"])
            if not f or "inputs" not in f or f.get("unsafe"):
                continue
            if not f.get("reachable"):
                continue      # a crate-private accessor gives nothing to a client
            n += 1
            if R.roles(f) & {"ACQ-GUARD", "ACQ-SCOPED", "ACQ-KEYED"}:
                res.ok(f["path"] + " (acquisition)")
                continue
            recv_shared = f["inputs"] and f["inputs"][0]["k"] == "ref" and not f["inputs"][0]["mut"] and \
                f["inputs"][0]["ty"]["k"] == "adt" and f["inputs"][0]["ty"]["path"] == P
            if not recv_shared:
                res.ok(f["path"])
                continue
            if any(x["k"] == "param" and x["name"] in lparams for x in ty_walk(f["output"])) or \
                    any(x["k"] == "alias" for x in ty_walk(f["output"])):
                res.bad(Violation("O1", f["path"], "output", "safe `&self` method of OwnedLockCollection returns %s: shared "
                                  "access to member locks" % f["output"]["s"], *_floc(f)))
            else:
                res.ok(f["path"])
    # Poisonable must not share its inner lock either: locking `inner` directly bypasses the poison flag
    PP = "poisonable::Poisonable"
    for i in ctx.F.impls:
        st = i["self_ty"]
        if st["k"] != "adt" or st["path"] != PP:
            continue
        lparams = [a["name"] for a in st["args"] if a["k"] == "param"]
        for it in i["items"]:
            f = ctx.F.fn_by_id.get(it["id"])
            if not f or "inputs" not in f or f.get("unsafe") or not f.get("reachable") or not f["inputs"]:
                continue
            t0 = f["inputs"][0]
            if not (t0["k"] == "ref" and not t0["mut"] and t0["ty"]["k"] == "adt" and t0["ty"]["path"] == PP):
                continue
            out = f["output"]
            if any(x["k"] == "ref" and not x["mut"] and x["ty"]["k"] == "param" and x["ty"]["name"] in lparams for x in ty_walk(out)):
                res.bad(Violation("O1", f["path"], "inner-lock-shared", "Poisonable hands out %s: the inner lock can be acquired "
                                  "directly, bypassing the poison flag" % out["s"], *_floc(f)))
        tr = i.get("trait")
        if tr in DENY_TRAITS:
            res.bad(Violation("O1", PP, "impl " + tr, "Poisonable implements %s: whatever the inner lock (or collection) hands out "
                              "through it - e.g. the member locks of a wrapped collection - can be locked directly, and a panic during "
                              "such a hold never poisons" % tr, i["span"]["file"], i["span"]["line"]))
    # conversions / free functions / impls on other types that take `&OwnedLockCollection<L>` and give back something typed by L
    for f in ctx.F.fns:
        if "inputs" not in f or f.get("unsafe") or not f.get("reachable") or f["kind"] == "Closure":
            continue
        imp = ctx.F.impl_of_fn(f)
        if imp and ((imp["self_ty"]["k"] == "adt" and imp["self_ty"]["path"] == P) or
                    (imp["self_ty"]["k"] == "ref" and imp["self_ty"]["ty"].get("path") == P)):
            continue     # judged above
        if R.roles(f) & {"ACQ-GUARD", "ACQ-SCOPED", "ACQ-KEYED"}:
            continue
        if (f.get("trait_item") or "").startswith(("std::fmt::", "lockable::")):
            continue
        lp = set()
        for t in f["inputs"]:
            for x in ty_walk(t):
                if x["k"] == "ref" and not x["mut"] and x["ty"]["k"] == "adt" and x["ty"]["path"] == P:
                    lp |= set(a["name"] for a in x["ty"]["args"] if a["k"] == "param")
        if not lp:
            continue
        if any(x["k"] == "param" and x["name"] in lp for x in ty_walk(f["output"])):
            res.bad(Violation("O1", f["path"], "shared-view", "%s takes `&OwnedLockCollection<%s>` and returns %s: a shared view of the "
                              "members of an owned collection (they can then be locked on their own, in another order, and are "
                              "invisible to duplicate checks)" % (f["path"].split("::")[-1], "/".join(sorted(lp)), f["output"]["s"]), *_floc(f)))
    res.need(25, "methods of OwnedLockCollection")
    return res


def rule_R2(ctx, R):
    res = RuleResult("R2", "drop order of key carriers: the ThreadKey field is declared after every field that can own a hold, so a "
                           "plain drop(guard) releases the locks before the key's Drop re-arms ThreadKey::get")
    holdish = set(R.holdtypes) | R.hold_owners | {"poisonable::PoisonRef"}
    for p in sorted(R.key_carriers):
        a = ctx.F.adts[p]
        if a["kind"] != "Struct":
            res.ok(p + " (enum: one payload per variant)")
            continue
        fields = a["variants"][0]["fields"]
        kidx = [i for i, f in enumerate(fields) if contains_by_value(f["ty"], {KEY} | R.key_carriers)]
        hidx = [i for i, f in enumerate(fields) if contains_by_value(f["ty"], holdish) or
                any(x["k"] in ("param", "alias") for x in by_value_types(f["ty"]))]
        hidx = [i for i in hidx if i not in kidx]
        if not kidx:
            continue
        if hidx and max(hidx) > min(kidx):
            res.bad(Violation("R2", p, "field-order", "field `%s` (owns the key) is declared before `%s` (owns holds): dropping the guard "
                              "re-arms ThreadKey::get while the locks are still held" % (fields[min(kidx)]["name"], fields[max(hidx)]["name"]),
                              a["span"]["file"], a["span"]["line"]))
        else:
            res.ok("%s: %s" % (p, [f["name"] for f in fields]))
        if a.get("drop_fn"):
            res.bad(Violation("R2", p, "manual-drop", "key carrier %s has a manual Drop impl: field drop order no longer decides" % p,
                              a["span"]["file"], a["span"]["line"]))
    res.need(6, "key carriers")
    return res


def leaf_keyed_guards(ctx, R):
    """{keyed leaf guard ADT: its leaf lock ADT}: key carriers that own a (non-generic) hold type directly, all of whose
    construction sites are methods of that leaf lock taking `&self`"""
    out = {}
    for c in R.key_carriers:
        a = ctx.F.adts.get(c)
        if not a or len(a["variants"]) != 1:
            continue
        holds = [fld["ty"]["path"] for fld in a["variants"][0]["fields"] if fld["ty"]["k"] == "adt" and fld["ty"]["path"] in R.holdtypes]
        if len(holds) != 1:
            continue
        h = ctx.F.adts.get(holds[0])
        hf = h["variants"][0]["fields"][R.holdtypes[holds[0]][0]]["ty"] if h else None
        lock = hf["ty"]["path"] if hf and hf["k"] == "ref" and hf["ty"]["k"] == "adt" else None
        if lock is None:
            continue
        ok = True
        nsites = 0
        for f in ctx.F.fns:
            m = f.get("mir")
            if not m:
                continue
            for b in m["blocks"]:
                for st in b["stmts"]:
                    if st["k"] == "assign" and st["rv"]["k"] == "aggregate" and st["rv"].get("agg") == "adt" and st["rv"].get("path") == c:
                        nsites += 1
                        top = ctx.F.top_fn(f)
                        imp = ctx.F.impl_of_fn(top)
                        own = imp and imp["self_ty"]["k"] == "adt" and imp["self_ty"]["path"] in (lock, c)
                        if not own:
                            ok = False
        if ok and nsites:
            out[c] = lock
    return out


def rule_O3(ctx, R):
    res = RuleResult("O3", "guards do not give back their lock: no safe function turns a hold, guard or protected-data view into a "
                           "reference to the lock it belongs to (members of an owned collection would become lockable on their own)")
    guardish = set(R.holdtypes) | R.key_carriers | R.hold_owners | {"poisonable::PoisonRef", "poisonable::PoisonError"}
    leafk = leaf_keyed_guards(ctx, R)
    n = 0
    for f in ctx.F.fns:
        if "inputs" not in f or f.get("unsafe") or not f.get("reachable"):
            continue
        takes = [t for t in f["inputs"] if any(x["k"] == "adt" and x["path"] in guardish for x in ty_walk(t))
                 or any(x["k"] == "alias" and x.get("name") in ("Guard", "ReadGuard", "DataMut", "DataRef") for x in ty_walk(t))]
        if not takes:
            continue
        n += 1
        out = f["output"]
        gives = [x for x in ty_walk(out) if x["k"] in ("ref", "ptr") and x["ty"]["k"] == "adt" and x["ty"]["path"] in R.lock_adts]
        if gives and all(any(x["k"] == "adt" and x["path"] in leafk for x in ty_walk(t)) and
                         not any(x["k"] == "adt" and x["path"] in (guardish - set(leafk)) - set(R.holdtypes) for x in ty_walk(t)) for t in takes) and \
                all(g["ty"]["path"] in [leafk[x["path"]] for t in takes for x in ty_walk(t) if x["k"] == "adt" and x["path"] in leafk] for g in gives):
            # a *keyed* guard of a leaf lock (`MutexGuard`) is only ever made by that lock's own `lock(&'a self, key)`: the caller
            # already had this `&'a Mutex`; collections hand out the keyless hold types, never these
            res.ok(f["path"] + " (keyed leaf guard: the caller's own reference)")
            continue
        if gives:
            res.bad(Violation("O3", f["path"], "lock-from-guard", "safe function returns %s from a guard (%s): the lock behind a guard "
                              "becomes reachable on its own, e.g. a member of an OwnedLockCollection, which is then locked outside the "
                              "collection's fixed order" % (gives[0]["s"], takes[0]["s"]), f["span"]["file"], f["span"]["line"]))
        else:
            res.ok(f["path"])
    res.need(86, "safe functions taking guards")
    return res


def rule_A6(ctx, R):
    res = RuleResult("A6", "references handed out by a borrowed guard live no longer than that borrow: no safe method taking `&guard`/"
                           "`&mut guard` returns a reference (or a type) carrying the guard's own type-level lifetime or 'static")
    guardish = set(R.holdtypes) | R.key_carriers | R.hold_owners | {"poisonable::PoisonRef"}
    for f in ctx.F.fns:
        if "inputs" not in f or f.get("unsafe") or not f.get("reachable") or not f["inputs"]:
            continue
        t0 = f["inputs"][0]
        if not (t0["k"] == "ref" and t0["ty"]["k"] == "adt" and t0["ty"]["path"] in guardish):
            continue
        # lifetimes that are parameters of the guard type itself
        own = set(a["r"].get("name") for a in t0["ty"].get("args", []) if a["k"] == "region" and a["r"]["k"] == "early")
        bad = None

        def walk_no_alias(t):
            yield t
            k = t["k"]
            if k == "adt":
                for a in t.get("args", []):
                    if a["k"] not in ("region", "const"):
                        yield from walk_no_alias(a)
            elif k in ("ref", "ptr", "array", "slice"):
                yield from walk_no_alias(t["ty"])
            elif k == "tuple":
                for e in t["elems"]:
                    yield from walk_no_alias(e)
        for x in walk_no_alias(f["output"]):
            regs = []
            if x["k"] == "ref":
                regs.append(x["region"])
            if x["k"] == "adt":
                regs += [a["r"] for a in x.get("args", []) if a["k"] == "region"]
            if x["k"] == "ref" and x["ty"]["k"] == "adt" and x["ty"]["path"] in R.lock_adts:
                continue      # a reference to a lock or collection is not protected data (what it may reach is O3's question)
            for r in regs:
                if r["k"] == "static" or (r["k"] == "early" and r.get("name") in own):
                    bad = "returns %s with lifetime %s" % (f["output"]["s"], r.get("name") or "'static")
        if bad:
            res.bad(Violation("A6", f["path"], "outlives-guard-borrow", "%s from a borrowed guard: the value outlives the guard, and with it "
                              "the hold that protects it" % bad, f["span"]["file"], f["span"]["line"]))
        else:
            res.ok(f["path"])
    res.need(65, "safe methods of borrowed guards")
    return res


def rule_A7(ctx, R):
    res = RuleResult("A7", "holds cannot change thread unless the raw lock allows it: every hold type carries "
                           "PhantomData<R::GuardMarker> of its raw lock, and no manual Send impl exists for holds or guards")
    for p, (fld, mode) in sorted(R.holdtypes.items()):
        a = ctx.F.adts[p]
        has = any(any(x["k"] == "alias" and x.get("name") == "GuardMarker" for x in ty_walk(f["ty"]))
                  for f in a["variants"][0]["fields"])
        if not has:
            res.bad(Violation("A7", p, "guard-marker", "hold type %s no longer carries PhantomData<R::GuardMarker>: it becomes Send "
                              "whenever its payload is, so a hold can be moved to and released by a thread that never acquired it "
                              "(raw locks with GuardNoSend, e.g. parking_lot, forbid exactly that)" % p,
                              a["span"]["file"], a["span"]["line"]))
        else:
            res.ok(p + " carries R::GuardMarker")
    guardish = set(R.holdtypes) | R.key_carriers | R.hold_owners | {"poisonable::PoisonRef"}
    for i in ctx.F.impls:
        if i.get("trait") == SEND and i["self_ty"]["k"] == "adt" and i["self_ty"]["path"] in guardish and i.get("polarity") != "Negative":
            res.bad(Violation("A7", i["self_ty"]["path"], "manual-send", "manual Send impl for the guard type %s" % i["self_ty"]["s"],
                              i["span"]["file"], i["span"]["line"]))
    res.need(3, "hold types")
    return res


def rule_D2(ctx, R):
    res = RuleResult("D2", "drop glue reaches every hold and key: no field of a crate type that can own a hold, a key or user data is "
                           "wrapped in ManuallyDrop / MaybeUninit (which switch the field's destructor off) unless the type has a Drop "
                           "impl of its own - otherwise dropping the value (e.g. while a panic unwinds) leaks the lock and the key")
    from roles import by_value_types
    SUPPRESS = ("std::mem::ManuallyDrop", "std::mem::MaybeUninit")
    for a in ctx.F.adts.values():
        if not a.get("span") or a["span"].get("exp"):
            pass
        bad = None
        for v in a["variants"]:
            for fld in v["fields"]:
                for x in by_value_types(fld["ty"]):
                    if x["k"] == "adt" and x["path"] in SUPPRESS:
                        inner = [y for y in ty_walk(x) if y is not x]
                        owns = any(y["k"] in ("param", "alias") or (y["k"] == "adt" and (y.get("local") or y["path"] == KEY)) for y in inner)
                        if owns and not a.get("drop_fn"):
                            bad = (fld["name"], x["s"])
        if bad:
            res.bad(Violation("D2", a["path"], "field " + bad[0], "field `%s` of %s is a %s and the type has no Drop impl: dropping "
                              "a %s never drops what that field owns (a hold stays locked, a key is never given back)" % (
                                  bad[0], a["path"], bad[1], a["path"].split("::")[-1]), a["span"]["file"], a["span"]["line"]))
        else:
            res.ok(a["path"])
    res.need(15, "crate types")
    return res
