"""E4: held-set analysis of the multi-lock algorithms (utils::ordered_*, attempt_to_recover_*, the retrying
collection's raw_* and the collections' unlock loops) on the k-bounded list model (listmodel.py).

For each algorithm function and each list length n in 0..N the interpreter enumerates every abstract path:
every try outcome, every unwind point (at most `faults` injected panics per path), with the per-element lock
typestate.  Obligations are checked on those paths:
  Y3  held = {} whenever a blocking acquisition is issued               (retrying collection)
  M4a released ⊆ held, in mode, never twice                             (every release in every algorithm)
  E5  return true => all n held in mode; return false => none held
  X2  try is a conjunction in list order (true after n successes, false at the first failure)
  Q4  unwinding exit => nothing held except the element whose own operation faulted (which may be killed),
      nothing killed except that element
  Y1/Y2/Q3 structural facts read off the same paths.
Bounded, not parametric: the claim is for lists of length <= N and at most R retries; see DESIGN.md.
"""
from common import RuleResult, Violation
from interp import UNIT, Undecided, State, Ref, Const
import listmodel
from rules_struct import rawlock_impl_fns, HL_SEM, _floc

RETRY = "collection::RetryingLockCollection"
QUICK_N = 3
THOROUGH_N = 8
LID = "LIST"
RETRIES = 2

_cache = {}


def _dyn_elem_ty():
    return {"k": "ref", "mut": False, "region": {"k": "erased"}, "s": "&dyn lockable::RawLock",
            "ty": {"k": "dyn", "principal": "lockable::RawLock", "s": "dyn lockable::RawLock", "preds": [], "region": {"k": "erased"}}}


def _is_root_data(I, st, v):
    """a `&L` / `&mut L` whose pointee type is a type parameter: the abstract lockable a collection was built over"""
    t = None
    if v[0] == "op":
        t = I.optype.get(v[1])
        if t is not None and t["k"] in ("ref", "ptr"):
            t = t["ty"]
    elif v[0] == "ref":
        t = I.loc_ty(v[1])
    return t is not None and t["k"] == "param"


def data_model(I, st, n, addrs=None, lid=LID):
    """Put interpreter I into data-model mode: the abstract lockable has n leaves LIST.[0..n) (in get_ptrs order) with the
    given model addresses; Vec / HashSet values are modelled; every helper is inlined.  Returns the leaf list view."""
    lst = listmodel.new_list(I, lid, n, _dyn_elem_ty())
    I.model_vecs = True
    I.addrs = {lid: list(addrs) if addrs is not None else list(range(n))}

    def hook(I_, st_, fn_, ce, args, line, depth):
        if not _is_root_data(I_, st_, args[0]):
            return None
        I_.emit(st_, {"k": "GETPTRS", "recv": "<data>", "into": args[1], "impl": ce.get("def"), "model": True}, fn_, line)
        items = [I_.load(st_, listmodel.elem_loc(lid, k)) for k in range(n)]
        loc, v = listmodel._vec_at(I_, st_, args[1])
        if v is None:
            raise Undecided("get_ptrs of the modelled data into an unmodelled vector")
        I_.store(st_, loc, listmodel.make_list(I_, st_, listmodel.items_of(I_, st_, v) + items))
        return [("ret", UNIT, st_)]
    I.getptrs_hook = hook
    return lst


def explore(ctx, fn, n, mode, kind, faults=1, loop_limit=None, preheld=None, addrs=None, acq_limit=None):
    """Enumerate the abstract paths of one collection operation over a lockable with n leaves (helpers inlined)."""
    key = (ctx.path, fn["id"], n, faults, loop_limit, preheld, tuple(addrs) if addrs else None, acq_limit)
    if key in _cache:
        return _cache[key]
    I = ctx.M["make"]()
    # the algorithms and the list helpers are analysed (inlined), not summarised: their names and shapes do not matter
    for p in list(I.primitives):
        if p in ctx.A.role:
            del I.primitives[p]
    I.max_faults = faults
    I.acq_limit = acq_limit
    I.state_limit = 3000000 if tier_n() >= 4 else 300000
    I.loop_limit = loop_limit or (n + 3)
    st = State()
    lst = data_model(I, st, n, addrs)
    m = fn["mir"]
    args = []
    for i in range(1, m["arg_count"] + 1):
        t = m["locals"][i]["ty"]
        if t["k"] == "ref" and t["ty"]["k"] == "slice":
            args.append(lst)
        else:
            rid = "a%d" % i
            I.oploc[rid] = ("O", rid, ())
            I.optype[rid] = t
            args.append(("op", rid, None))
    # sorting collections keep their list in a field: `self.locks` is the leaf list sorted by address (L2 decides that the
    # constructors establish exactly this)
    if m["arg_count"] >= 1:
        t = m["locals"][1]["ty"]
        base = t["ty"] if t["k"] == "ref" else t
        if base["k"] == "adt" and base["path"] in ("collection::BoxedLockCollection", "collection::RefLockCollection"):
            from rules_struct import lock_list_path
            lf = lock_list_path(ctx, base["path"])
            if lf is not None:
                A_ = I.addrs[LID]
                order = sorted(range(n), key=lambda k: A_[k])
                items = [I.load(st, listmodel.elem_loc(LID, k)) for k in order]
                st.heap[("O", "a1", ("*",) + tuple(lf))] = listmodel.make_list(I, st, items, _dyn_elem_ty())
    # precondition of release-style functions: the listed locks are held
    if preheld:
        for k in range(n):
            st.locks["%s.[%d].*" % (LID, k)] = preheld
    try:
        paths = I.analyze(fn, args, st)
        # a try operation that hands the outcome of a member's try straight back (`return lock.raw_try_write()`): the two
        # outcomes are two paths
        from interp import Path
        split = []
        for p in paths:
            v = p.value
            if p.kind == "ret" and v is not None and v[0] == "op" and not isinstance(p.facts.get(v[1]), bool) and \
                    fn["output"].get("name") == "bool":
                try:
                    for b, s2 in I.fork_bool(p.st, v):
                        split.append(Path("ret", ("const", b), s2, p.note))
                    continue
                except Undecided:
                    pass
            split.append(p)
        paths = split
        res = (paths, None)
    except Undecided as e:
        res = (None, str(e))
    except RecursionError:
        res = (None, "recursion limit")
    _cache[key] = res
    return res


def elem(k):
    return "%s.[%d].*" % (LID, k)


def held_elems(p, n):
    return {k: p.locks.get(elem(k)) for k in range(n) if p.locks.get(elem(k)) in ("W", "R")}


def faulted_elems(p):
    """elements whose own operation unwound on this path (the injected faults)"""
    out = []
    for e in p.events:
        if e["k"] == "UNWIND_AT" and e.get("recv", "").startswith(LID):
            out.append(e["recv"])
        elif e["k"] == "UNWIND_AT" and e.get("what") == "TRY":
            prev = [x for x in p.events[:e["i"]] if x["k"] == "TRY"]
            if prev:
                out.append(prev[-1]["recv"])
    return out


def faulted_elem(p):
    f = faulted_elems(p)
    return f[0] if f else None


COLL_LABEL = {"collection::BoxedLockCollection": "Boxed", "collection::RefLockCollection": "Ref",
              "collection::OwnedLockCollection": "Owned", RETRY: "Retrying"}


def alg_functions(ctx):
    """(fn, label, kind, mode, preheld): the six lock operations of each of the four collections.  They are public-trait
    API; the crate-private helpers they are built from are inlined, so their names, number and shapes do not matter."""
    out = []
    for adt, name, f in rawlock_impl_fns(ctx, set(COLL_LABEL)):
        if name in HL_SEM:
            kind, mode = HL_SEM[name]
            out.append((f, COLL_LABEL[adt] + "::" + name, kind, mode, mode if kind == "REL" else None))
    return out


def _sizes(tier_n):
    return list(range(0, tier_n + 1))


def _mk(rule, desc):
    return RuleResult(rule, desc)


def _run_all(ctx, tier_n):
    """{(label, n): (fn, kind, mode, paths, err)}"""
    out = {}
    for f, label, kind, mode, pre in alg_functions(ctx):
        for n in _sizes(tier_n):
            ll = None
            nn = n
            if label.startswith("Retrying::raw_write") or label.startswith("Retrying::raw_read"):
                if n > 6:
                    continue
                r = retries() if n <= 4 else min(retries(), RETRIES + 1)    # the deepest retry bound only for lists of <= 4
                ll = (n + 2) * (r + 1)      # that many full retry rounds, then the path is cut
            paths, err = explore(ctx, f, nn, mode, kind, faults=tier_faults(), loop_limit=ll, preheld=pre,
                                 acq_limit=(r + 1) if ll else None)
            out[(label, n)] = (f, kind, mode, paths, err)
    return out


def tier_n():
    import os
    return THOROUGH_N if os.environ.get("HLV_TIER") == "thorough" else QUICK_N


def retries():
    """retry rounds explored for the retrying collection: 2 (quick), 3 (thorough)"""
    import os
    return RETRIES + 2 if os.environ.get("HLV_TIER") == "thorough" else RETRIES


def tier_faults():
    import os
    return 3 if os.environ.get("HLV_TIER") == "thorough" else 1


def _viol(res, rule, f, site, msg):
    key = (rule, f["path"], site)
    if key in res._seen:
        return
    res._seen.add(key)
    # crate-private list helpers are identified by the role discovered for them (anchors.py), not by their current name
    role = res._ctx.A.role_of(f["path"]) if getattr(res, "_ctx", None) is not None else None
    res.bad(Violation(rule, ("alg:" + role) if role else f["path"], site, msg, *_floc(f)))


def _site_of(p, n):
    """stable descriptor of where on the path the fault/decision happened (no line numbers)"""
    for e in p.events:
        if e["k"] == "UNWIND_AT":
            prev = p.events[e["i"] - 1] if e["i"] > 0 else {}
            op = prev.get("k", "?")
            ctxs = "handler" if any(x["k"] == "CAUGHT" and x["i"] < e["i"] for x in p.events) else "body"
            # paths with further injected panics (thorough tier) are different findings from single-fault paths
            extra = sum(1 for x in p.events if x["k"] == "UNWIND_AT") - 1
            return "fault@%s:%s%s" % (ctxs, op, ("+%d" % extra) if extra > 0 else "")
    return "no-fault"


def rule_Y3(ctx, R):
    res = _mk("Y3", "retrying collection: whenever a blocking acquisition is issued no lock of this acquisition is held (held-set "
                    "analysis, list length <= N, bounded retries, every try outcome)")
    res._seen = set()
    res._ctx = ctx
    runs = _run_all(ctx, tier_n())
    for (label, n), (f, kind, mode, paths, err) in sorted(runs.items()):
        if not (label.startswith("Retrying::") and kind == "ACQ"):
            continue
        if err:
            res.undecided(f["path"], "n=%d" % n, err, *_floc(f))
            continue
        nacq = 0
        bad = False
        for p in paths:
            st_locks = {}
            for e in p.events:
                if e["k"] == "ACQ" and e["recv"].startswith(LID):
                    nacq += 1
                    held = [r for r, m in st_locks.items() if m in ("W", "R")]
                    if held:
                        bad = True
                        _viol(res, "Y3", f, "blocks-while-holding", "%s (n=%d): blocking acquisition of %s while holding %s (path: %s)" % (
                            label, n, e["recv"], held, p.trace()[:400]))
                    st_locks[e["recv"]] = e["mode"]
                elif e["k"] == "TRY" and e.get("outcome") is True:
                    st_locks[e["recv"]] = e["mode"]
                elif e["k"] == "REL":
                    st_locks[e["recv"]] = "U"
        if not bad:
            res.ok("%s n=%d: %d paths, %d blocking acquisitions" % (label, n, len(paths), nacq))
    res.need(6, "retrying blocking ops x sizes")
    return res


def rule_Y1(ctx, R):
    res = _mk("Y1", "retrying collection: one blocking acquisition site per operation; every other acquisition is a try; mode purity "
                    "(sites = distinct source locations of the acquisitions executed on the data-model paths, helpers inlined)")
    for f, label, kind, mode, pre in alg_functions(ctx):
        if not (label.startswith("Retrying::") and kind == "ACQ"):
            continue
        name = label.split("::")[1]
        paths, err = explore(ctx, f, 3, mode, kind, faults=0, loop_limit=5 * 3, preheld=pre, acq_limit=3)
        if err:
            res.undecided(f["path"], "n=3", err, *_floc(f))
            continue
        sites = {"ACQ": set(), "TRY": set()}
        bad = None
        for p in paths:
            for e in p.events:
                if e["k"] in ("ACQ", "TRY") and e.get("recv", "").startswith(LID):
                    sites[e["k"]].add((e.get("fn"), e.get("line")))
                    if e["mode"] != mode:
                        bad = "%s-mode acquisition inside %s" % (e["mode"], name)
        if len(sites["ACQ"]) != 1:
            bad = bad or "%d blocking acquisition sites (exactly one is allowed): %s" % (len(sites["ACQ"]), sorted(sites["ACQ"]))
        if len(sites["TRY"]) < 1:
            bad = bad or "no try acquisition: the other members would be taken by blocking"
        if bad:
            res.bad(Violation("Y1", f["path"], name, bad, *_floc(f)))
        else:
            res.ok("%s: 1 blocking site, %d try sites" % (name, len(sites["TRY"])))
    res.need(2, "retrying blocking ops")
    return res


def rule_Y2(ctx, R):
    res = _mk("Y2", "retrying collection: every path from a failed try back to the blocking site passes through the rollback of the "
                    "acquired prefix, in mode, and releases the first lock only under the index guard")
    res._seen = set()
    res._ctx = ctx
    runs = _run_all(ctx, tier_n())
    for (label, n), (f, kind, mode, paths, err) in sorted(runs.items()):
        if not (label.startswith("Retrying::") and kind == "ACQ") or n == 0:
            continue
        if err:
            res.undecided(f["path"], "n=%d" % n, err, *_floc(f))
            continue
        nback = 0
        for p in paths:
            evs = [e for e in p.events if e["k"] in ("ACQ", "TRY", "REL") and e.get("recv", "").startswith(LID)]
            for i, e in enumerate(evs):
                if e["k"] == "TRY" and e.get("outcome") is False:
                    # next ACQ on the path
                    nxt = next((j for j in range(i + 1, len(evs)) if evs[j]["k"] == "ACQ"), None)
                    if nxt is None:
                        continue
                    nback += 1
                    between = evs[i + 1:nxt]
                    if any(b["k"] != "REL" or b["mode"] != mode for b in between):
                        _viol(res, "Y2", f, "back-edge", "%s (n=%d): between a failed try and the next blocking acquisition something "
                                                         "other than %s-mode releases happens (%s)" % (label, n, mode, p.trace()[:300]))
                    if evs[nxt]["recv"] != e["recv"]:
                        _viol(res, "Y2", f, "waits-on-other", "%s (n=%d): after failing on %s the next blocking acquisition is on %s, not on the "
                                                              "contended lock (spin risk / different wait target)" % (label, n, e["recv"], evs[nxt]["recv"]))
        res.ok("%s n=%d: %d back-edges checked" % (label, n, nback))
    res.need(4, "retrying blocking ops x sizes")
    return res


def rule_E5(ctx, R):
    res = _mk("E5", "all-or-nothing bookkeeping of collection-level acquisitions: normal return of a blocking op / `true` of a try op => "
                    "all n locks held in mode; `false` => none held (held-set analysis, n <= N)")
    res._seen = set()
    res._ctx = ctx
    runs = _run_all(ctx, tier_n())
    for (label, n), (f, kind, mode, paths, err) in sorted(runs.items()):
        if kind not in ("ACQ", "TRY"):
            continue
        if err:
            res.undecided(f["path"], "n=%d" % n, err, *_floc(f))
            continue
        ok = True
        nret = 0
        for p in paths:
            for pr in p.problems:
                if pr["k"] in ("DOUBLE_ACQ", "ACQ_WHILE_HELD"):
                    ok = False
                    _viol(res, "E5", f, "acquired-twice", "%s (n=%d): member %s is acquired again while this call already holds it: it "
                                                          "ends up held twice (or the call waits on itself) (path: %s)" % (
                                                              label, n, pr.get("recv"), p.trace()[:400]))
            if p.kind != "ret":
                continue
            nret += 1
            h = held_elems(p, n)
            v = p.value
            if kind == "TRY":
                tv = None
                if v == ("const", True):
                    tv = True
                elif v == ("const", False):
                    tv = False
                elif v and v[0] == "op":
                    tv = p.facts.get(v[1])
                if tv is True or (tv is None and n == 0):
                    want_all = True
                elif tv is False:
                    want_all = False
                else:
                    ok = False
                    _viol(res, "E5", f, "result", "%s (n=%d): returns %r, not a decided boolean" % (label, n, v))
                    continue
            else:
                want_all = True
            if want_all and (len(h) != n or any(m != mode for m in h.values())):
                ok = False
                _viol(res, "E5", f, "partial-success", "%s (n=%d): reports success holding %s of %d locks (path: %s)" % (
                    label, n, sorted(h.items()), n, p.trace()[:400]))
            if not want_all and h:
                ok = False
                _viol(res, "E5", f, "partial-failure", "%s (n=%d): reports failure while still holding %s (path: %s)" % (
                    label, n, sorted(h.items()), p.trace()[:400]))
        if ok:
            res.ok("%s n=%d: %d returning paths" % (label, n, nret))
    res.need(24, "collection-level acquisitions x sizes")
    return res


def rule_X2(ctx, R):
    res = _mk("X2", "collection try is a conjunction in list order: members are tried 0,1,2.. in the requested mode only, `false` at the "
                    "first refusal, `true` after n successes, and no blocking acquisition is issued")
    res._seen = set()
    res._ctx = ctx
    runs = _run_all(ctx, tier_n())
    for (label, n), (f, kind, mode, paths, err) in sorted(runs.items()):
        if kind != "TRY":
            continue
        if err:
            res.undecided(f["path"], "n=%d" % n, err, *_floc(f))
            continue
        ok = True
        for p in paths:
            if p.ev("ACQ"):
                ok = False
                _viol(res, "X2", f, "blocks", "%s (n=%d): a try-style acquisition issues a blocking acquisition" % (label, n))
            tries = [e for e in p.ev("TRY") if e["recv"].startswith(LID)]
            order = [e["recv"] for e in tries]
            if order != [elem(k) for k in range(len(order))] or any(e["mode"] != mode for e in tries):
                ok = False
                _viol(res, "X2", f, "order", "%s (n=%d): members tried as %s in modes %s" % (label, n, order, [e["mode"] for e in tries]))
            if p.kind == "ret":
                outs = [e.get("outcome") for e in tries]
                if False in outs and outs.index(False) != len(outs) - 1:
                    ok = False
                    _viol(res, "X2", f, "continues-after-refusal", "%s (n=%d): keeps trying after a refusal" % (label, n))
                if False not in outs and len(outs) != n:
                    ok = False
                    _viol(res, "X2", f, "early-success", "%s (n=%d): returns after %d of %d members" % (label, n, len(outs), n))
                v = p.value
                tv = v[1] if v and v[0] == "const" else (p.facts.get(v[1]) if v and v[0] == "op" else None)
                if False not in outs and len(outs) == n and tv is not True and not (n == 0 and tv is None):
                    ok = False
                    _viol(res, "X2", f, "refuses-when-free", "%s (n=%d): every member was acquired but the attempt reports %r" % (label, n, tv))
                if False in outs and tv is not False:
                    ok = False
                    _viol(res, "X2", f, "succeeds-on-refusal", "%s (n=%d): a member refused but the attempt reports %r" % (label, n, tv))
        if ok:
            res.ok("%s n=%d" % (label, n))
    res.need(16, "collection-level tries x sizes")
    return res


def rule_Q3(ctx, R):
    res = _mk("Q3", "rollback and release paths of the algorithms use the release matching the acquisition mode and never release "
                    "what is not held (no fault injected): released ⊆ held, in mode, once")
    res._seen = set()
    res._ctx = ctx
    runs = _run_all(ctx, tier_n())
    for (label, n), (f, kind, mode, paths, err) in sorted(runs.items()):
        if err:
            res.undecided(f["path"], "n=%d" % n, err, *_floc(f))
            continue
        ok = True
        for p in paths:
            if any(e["k"] == "UNWIND_AT" for e in p.events):
                continue
            for pr in p.problems:
                if pr["k"] in ("REL_NOT_HELD",):
                    ok = False
                    _viol(res, "Q3", f, "release-not-held", "%s (n=%d): releases %s in mode %s while it is %s, with no fault "
                                                            "involved (path: %s)" % (label, n, pr.get("recv"), pr.get("mode"), pr.get("have"), p.trace()[:400]))
            for e in p.ev("REL"):
                if e["recv"].startswith(LID) and e["mode"] != mode:
                    ok = False
                    _viol(res, "Q3", f, "release-mode", "%s (n=%d): releases in mode %s inside a %s-mode algorithm" % (label, n, e["mode"], mode))
            if kind in ("REL", "RECOVER") and p.kind == "ret":
                h = held_elems(p, n)
                if h:
                    ok = False
                    _viol(res, "Q3", f, "incomplete-release", "%s (n=%d): returns with %s still held" % (label, n, sorted(h)))
        if ok:
            res.ok("%s n=%d" % (label, n))
    res.need(40, "algorithms x sizes")
    return res


def rule_Q4(ctx, R):
    res = _mk("Q4", "exact release at every unwind source: with one panic injected at any raw-operation-bearing call, the call leaves "
                    "unwinding with no lock held, nothing released that was not held, nothing released twice, and nothing killed "
                    "except the lock whose own operation panicked")
    res._seen = set()
    res._ctx = ctx
    runs = _run_all(ctx, tier_n())
    for (label, n), (f, kind, mode, paths, err) in sorted(runs.items()):
        if err:
            res.undecided(f["path"], "n=%d" % n, err, *_floc(f))
            continue
        ok = True
        nf = 0
        for p in paths:
            if not any(e["k"] == "UNWIND_AT" for e in p.events):
                continue
            nf += 1
            site = _site_of(p, n)
            fes = set(faulted_elems(p))
            fe = faulted_elem(p)
            # small single-fault cases are identified exactly (list length, faulted element, affected elements), so that a new
            # way of failing at an already known site is still a new finding; larger / multi-fault cases share the coarse key
            fine = n <= 3 and "+" not in site

            def _ix(r):
                return r.split("[")[1].split("]")[0] if "[" in (r or "") else str(r)
            fi = sorted(_ix(x) for x in fes)
            if p.kind == "ret":
                ok = False
                _viol(res, "Q4", f, "swallowed:" + site, "%s (n=%d): a panic in a lock operation is swallowed (path: %s)" % (label, n, p.trace()[:300]))
                continue
            if p.kind != "unwind":
                continue
            h = {k: m for k, m in held_elems(p, n).items() if elem(k) not in fes}
            if h:
                ok = False
                _viol(res, "Q4", f, "leak:" + site + ("#n=%d f=%s leaked=%s" % (n, fi, sorted(h)) if fine else ""),
                      "%s: after a panic in %s the call unwinds with lock(s) %s still held "
                                                    "(n=%d; path: %s)" % (label, site, sorted(h), n, p.trace()[:500]))
            for pr in p.problems:
                if pr["k"] == "REL_NOT_HELD":
                    ok = False
                    what = "releases %s although %s" % (pr.get("recv"), {"U": "this call does not hold it", "K": "it was killed"}.get(pr.get("have"), pr.get("have")))
                    _viol(res, "Q4", f, "bad-release:" + site + ":" + ("faulted" if pr.get("recv") in fes else "other") +
                          ("#n=%d f=%s rel=%s have=%s" % (n, fi, _ix(pr.get("recv")), pr.get("have")) if fine else ""),
                          "%s: after a panic in %s the unwind path %s (n=%d; path: %s)" % (label, site, what, n, p.trace()[:500]))
            killed = [r for r, m in p.locks.items() if m == "K" and r != fe and r.startswith(LID)]
            kills = [e["recv"] for e in p.ev("KILL") if e["recv"] not in fes]
            if kills:
                ok = False
                _viol(res, "Q4", f, "kills-others:" + site + ("#n=%d f=%s killed=%s" % (n, fi, sorted(set(_ix(k) for k in kills))) if fine else ""),
                      "%s: after a panic in %s locks other than the faulted one are killed: %s "
                                                            "(n=%d)" % (label, site, sorted(set(kills)), n))
        if ok:
            res.ok("%s n=%d: %d faulted paths" % (label, n, nf))
    res.need(40, "algorithms x sizes")
    return res
