"""Shared infrastructure: context (facts + interpreter + caches), rule results,
known findings, reports, evidence."""
import json
import os
import re
import time

import facts as factsmod
import model
from interp import Undecided

VERIF = factsmod.VERIF
KNOWN = os.path.join(VERIF, "KNOWN_FINDINGS.txt")


class Ctx:
    def __init__(self, config="default", repo=None):
        self.config = config
        self.path = factsmod.facts_path(config, repo)
        self.F = factsmod.Facts(self.path)
        import anchors
        self.A = anchors.get(self.F)
        self.M = model.build(self.F)
        self.A.classify_flag_methods(self.M["make"])
        self._paths = {}
        self._cg = None

    def paths(self, fn, inline_assume_of=None):
        """Memoised path analysis of one entry function.  Returns (paths, error).
        inline_assume_of: ADT paths whose Lockable/Sharable guard-family impls are inlined instead of summarised."""
        key = fn["id"] if not inline_assume_of else (fn["id"], tuple(sorted(inline_assume_of)))
        if key not in self._paths:
            I = self.M["make"]()
            if inline_assume_of:
                I.inline_assume_of = set(inline_assume_of)
            try:
                self._paths[key] = (I.analyze(fn), None, I)
            except Undecided as e:
                self._paths[key] = (None, str(e), I)
            except RecursionError:
                self._paths[key] = (None, "recursion limit", I)
        return self._paths[key]

    def arg_name(self, fn, oid):
        """Human name for an access path like a1.*.0 using debug info and field names."""
        try:
            parts = oid.split(".")
            root = parts[0]
            if not (root.startswith("a") and root[1:].isdigit()):
                return oid
            n = int(root[1:])
            name = None
            for d in fn["mir"]["debug"]:
                p = d.get("place")
                if p and p["l"] == n and not p["p"]:
                    name = d["name"]
            name = name or root
            t = fn["mir"]["locals"][n]["ty"]
            I = self.M["make"]()
            for p in parts[1:]:
                if p == "*":
                    t = I.proj_ty(t, "*")
                    continue
                pp = int(p) if p.isdigit() else p
                if isinstance(pp, int) and t is not None and t["k"] == "adt" and t["path"] in self.F.adts:
                    fs = self.F.adts[t["path"]]["variants"][0]["fields"]
                    name += "." + (fs[pp]["name"] if pp < len(fs) else p)
                else:
                    name += "." + p
                t = I.proj_ty(t, pp)
            return name
        except Exception:
            return oid


_MODPFX = re.compile(r"(?<![A-Za-z0-9_])(?:(?:r#)?[a-z_][a-z0-9_]*::)+(?=[A-Za-z_<\[])")
_GENARGS = re.compile(r"(?<=[A-Za-z0-9_])<[^<>]*>")


def norm_fn(path):
    """Identity of a function that survives moving it to another module and renaming type/lifetime parameters:
    module prefixes (lower-case path segments) and generic argument lists of types are dropped.
       collection::owned::<impl lockable::RawLock for collection::OwnedLockCollection<L>>::raw_read
    -> <impl RawLock for OwnedLockCollection>::raw_read"""
    if not isinstance(path, str):
        return path
    s = path
    prev = None
    while prev != s:
        prev = s
        s = _GENARGS.sub("", s)
    s = _MODPFX.sub("", s)
    return s


class Violation:
    def __init__(self, rule, fn, site, msg, file=None, line=None, detail=None):
        self.rule = rule
        self.fn = fn
        self.site = site
        self.msg = msg
        self.file = file
        self.line = line
        self.detail = detail or {}

    @property
    def key(self):
        return "%s | %s | %s" % (self.rule, norm_fn(self.fn), self.site)

    def to_json(self):
        return {"rule": self.rule, "key": self.key, "function": self.fn, "site": self.site, "message": self.msg,
                "file": self.file, "line": self.line, "detail": self.detail}


class RuleResult:
    """Outcome of one rule: evaluated instances, violations, floor."""

    def __init__(self, rule, desc):
        self.rule = rule
        self.desc = desc
        self.instances = []     # (instance descriptor, verdict)
        self.violations = []
        self.floor = 0
        self.notes = []

    def ok(self, inst):
        self.instances.append((inst, "ok"))

    def bad(self, v, inst=None):
        self.instances.append((inst or v.site, "VIOLATION"))
        self.violations.append(v)

    def undecided(self, fn, site, why, file=None, line=None):
        self.bad(Violation(self.rule, fn, "UNDECIDED:" + site, "rule could not decide this instance (fails closed): " + why,
                           file, line))

    def need(self, floor, what):
        """Fail closed if fewer instances than counted by hand on the reference tree."""
        # counted on the reference tree; a margin (a tenth, at least two, for counts above ten) lets a refactor remove or merge
        # a few public items without tripping the vacuity guard, which exists to notice anchors that matched (almost) nothing
        if floor > 10:
            floor = floor - max(2, floor // 10)
        self.floor = floor
        if len(self.instances) < floor:
            self.violations.append(Violation(
                self.rule, "<crate>", "FLOOR:" + what,
                "rule %s matched %d instances of '%s', fewer than the %d confirmed on the reference tree "
                "(anchor moved or removed: fails closed)" % (self.rule, len(self.instances), what, floor)))


def load_known():
    """KNOWN_FINDINGS.txt: lines `open: property=<id> key=<exact key> ## <what fails>` and
    `fixed: property=<id> <commit> <what failed>` (fixed lines suppress nothing)."""
    out = {}
    if not os.path.exists(KNOWN):
        return out
    for ln in open(KNOWN):
        ln = ln.strip()
        if not ln.startswith("open:"):
            continue
        body = ln[len("open:"):].strip()
        try:
            head, what = body.split(" ## ", 1)
            prop, key = head.split("key=", 1)
            prop = prop.strip().split("=", 1)[1]
            out.setdefault(prop, {})[key.strip()] = what.strip()
        except ValueError:
            continue
    return out


def finish(prop, tier, results, t0, explanation, assumptions, extra_cov=None, level="other"):
    """Print the summary, write reports and evidence; returns exit code."""
    known = load_known().get(prop, {})
    OUT = os.environ.get("HLV_OUT") or VERIF
    os.makedirs(os.path.join(OUT, "reports"), exist_ok=True)
    os.makedirs(os.path.join(OUT, "evidence"), exist_ok=True)
    n_inst = 0
    viols = []
    samples = []
    distinct = set()
    used_known = set()
    for r in results:
        n_inst += len(r.instances)
        for inst, verdict in r.instances:
            distinct.add((r.rule, str(inst)))
        print("rule %-6s %-70s instances=%d floor=%d violations=%d" % (
            r.rule, r.desc[:70], len(r.instances), r.floor, len(r.violations)))
        for n in r.notes:
            print("       note: %s" % n)
        for inst, verdict in r.instances[:3]:
            samples.append({"rule": r.rule, "instance": str(inst)[:300], "verdict": verdict})
        viols += r.violations
    new = []
    for v in viols:
        if v.key in known:
            used_known.add(v.key)
            print("KNOWN-FINDING: property=%s %s [%s] %s" % (prop, known[v.key], v.key, v.msg[:200]))
        else:
            new.append(v)
    for i, v in enumerate(new):
        path = os.path.join(OUT, "reports", "%s-%d.json" % (prop, i))
        with open(path, "w") as fh:
            json.dump(v.to_json(), fh, indent=1, default=str)
        print("  %s:%s: [%s] %s" % (v.file, v.line, v.rule, v.msg))
        print("VIOLATION property=%s replay=%s" % (prop, path))
    stale = [k for k in known if k not in used_known]
    for k in stale:
        print("note: known finding no longer reproduced: %s" % k)
    cov = {
        "explanation": explanation,
        "obligations": n_inst,
        "discharged": n_inst - len(viols),
        "evaluations": n_inst,
        "distinct_nontrivial": len(distinct),
        "rule": "one evaluation = one rule instance (function, impl, call site, path or witness program) decided on "
                "the facts extracted from /repo's current tree; distinct = distinct (rule, instance) pairs",
        "samples": samples[:40],
        "rules": [{"rule": r.rule, "what": r.desc, "instances": len(r.instances), "floor": r.floor,
                   "violations": len(r.violations)} for r in results],
        "known_findings_reported": sorted(used_known),
        "new_violations": [v.key for v in new],
        "exhaustive": True,
    }
    if extra_cov:
        cov.update(extra_cov)
    ev = {
        "property_id": prop, "tier": tier, "seed": int(os.environ.get("VERIF_SEED", "0") or 0), "level": level,
        "coverage": cov, "assumptions": assumptions, "wall_s": round(time.time() - t0, 2),
        "violations": len(new),
    }
    with open(os.path.join(OUT, "evidence", "%s.json" % prop), "w") as fh:
        json.dump(ev, fh, indent=1, default=str)
    print("property %s tier=%s: %d rule instances, %d violations (%d known findings, %d new), %.1fs" % (
        prop, tier, n_inst, len(viols), len(viols) - len(new), len(new), time.time() - t0))
    return 1 if new else 0
