"""Poisoning (C10), guard deref (D1), non-acquiring ops (V2/V3), heap-cell ownership (H1/H2)."""
from common import RuleResult, Violation
from roles import holds_no_user_value
from facts import ty_walk
from interp import loc_s, val_contains, Undecided
from rules_ts import analysed_fns
from rules_ts2 import call_sites, _count_op
from rules_struct import vid, _calls, _floc, rawlock_impl_fns, leaf_locks, COLLS, SORTING
from rules_cg import cg_of

POIS = "poisonable::Poisonable"
PREF = "poisonable::PoisonRef"
PERR = "poisonable::PoisonError"
FLAGP = "poisonable::flag::<impl poisonable::PoisonFlag>::"   # (display only; the functions are discovered: anchors.py)


def _flag_field(ctx, adt):
    for i, f in enumerate(ctx.F.adts[adt]["variants"][0]["fields"]):
        t = f["ty"]
        if any(x["k"] == "adt" and x["path"] == (ctx.A.flag_adt or "poisonable::PoisonFlag") for x in ty_walk(t)):
            return i
    return None


def drop_glue_outcomes(ctx, adt_path):
    """what dropping a value of the crate type `adt_path` does: its Drop impl (if any) and the drop glue of its fields, whatever
    private sentinel types carry the behaviour; [(kind, events)] for every outcome"""
    from interp import State
    I = ctx.M["make"]()
    a = ctx.F.adts[adt_path]
    t = {"k": "adt", "path": a["path"], "local": True, "s": a["path"],
         "args": [{"k": "region", "r": {"k": "erased"}} if g["kind"] == "lifetime" else
                  {"k": "param", "name": g["name"], "index": g["index"], "s": g["name"]} for g in a["generics"] if g["kind"] != "const"]}
    st = State()
    I.oploc["a1"] = ("O", "a1", ())
    I.optype["a1"] = t
    fn = {"path": "<drop glue of %s>" % adt_path, "span": a["span"], "id": "<glue>", "mir": {"locals": []}, "predicates": []}
    outs = I.drop_opaque(st, ("op", "a1", None), t, fn, None, 0)
    return [(kind, s.events) for kind, s in outs]


def rule_F1(ctx, R):
    res = RuleResult("F1", "PoisonRef sets its flag exactly when dropped during unwinding; every PoisonRef is built with the flag of the "
                           "Poisonable whose lock its guard belongs to")
    a = ctx.F.adts.get(PREF)
    if not a:
        res.undecided(PREF, "anchor", "type not found")
        res.need(3, "PoisonRef facts")
        return res
    # the drop glue of PoisonRef (its own Drop impl or that of a private field, e.g. a poison-on-unwind sentinel)
    try:
        outs = drop_glue_outcomes(ctx, PREF)
        err = None
    except Undecided as e:
        outs, err = [], str(e)
    if err:
        res.undecided(PREF, "analysis", err, a["span"]["file"], a["span"]["line"])
    else:
        bad = None
        seen = set()
        if not any(e["k"] == "PANICKING" for kind, evs in outs for e in evs):
            bad = "never consults thread::panicking(): a panic while a Poisonable guard is alive never poisons"
        for kind, evs in outs:
            if bad:
                break
            pk = [e for e in evs if e["k"] == "PANICKING"]
            sets = [e for e in evs if e["k"] == "FLAG_SET"]
            gd = [e for e in evs if e["k"] == "DROPP"]
            if len(pk) != 1:
                bad = "thread::panicking() consulted %d times" % len(pk)
                break
            out = pk[0].get("outcome")
            seen.add(out)
            if out is True and (len(sets) != 1 or not (sets[0]["recv"].startswith("a1.") and sets[0]["recv"].endswith(".*"))):
                bad = "does not poison its own flag when dropped during a panic (%s)" % [x["recv"] for x in sets]
            elif out is True and gd and sets[0]["i"] > gd[0]["i"]:
                bad = "poisons only after the inner guard has been released (a waiter can get the lock and still see it unpoisoned)"
            if out is False and sets:
                bad = "poisons although the thread is not panicking"
            if any(e["k"] == "FLAG_CLEAR" for e in evs):
                bad = "clears the flag"
        if not bad and seen != {True, False}:
            bad = "drop does not distinguish panicking from normal drops (%s)" % seen
        if bad:
            res.bad(Violation("F1", PREF, "drop", "dropping a PoisonRef " + bad, a["span"]["file"], a["span"]["line"]))
        else:
            res.ok("drop glue of " + PREF)
    # construction sites: every reachable function that returns a PoisonRef (anywhere inside its result), with the private
    # constructor and keyed helpers inlined - and Poisonable's own guard()/read_guard() impls inlined into lock()/read() & co
    from rules_ts import entry_fns
    nsites = 0
    pf = _flag_field(ctx, POIS)
    for top in entry_fns(ctx):
        imp = ctx.F.impl_of_fn(top)
        if not imp or imp["self_ty"]["k"] != "adt" or imp["self_ty"]["path"] != POIS:
            continue
        if not any(x["k"] == "adt" and x["path"] == PREF for x in ty_walk(top["output"])) and \
                not any(x["k"] == "alias" for x in ty_walk(top["output"])):
            continue
        paths, err, I = ctx.paths(top, inline_assume_of=(POIS,))
        if err:
            res.undecided(top["path"], "analysis", err, *_floc(top))
            continue
        bad = None
        found = False
        for p in paths:
            if p.kind != "ret" or not p.value:
                continue
            refs = []
            def visit(v):
                if v[0] == "agg":
                    if v[1] == "adt" and v[2] == PREF:
                        refs.append(v)
                    for x in v[4]:
                        visit(x)
            visit(p.value)
            for r in refs:
                found = True
                # wherever they sit inside the PoisonRef (directly or inside a private sentinel field): the guard is the
                # result of a guard()/read_guard() call, the flag is a reference to a flag field of a Poisonable
                subs = []

                def sub(v):
                    subs.append(v)
                    if v[0] == "agg":
                        for x in v[4]:
                            sub(x)
                for x in r[4]:
                    sub(x)
                g = next((x for x in subs if x[0] == "op" and x[2] and x[2][0] == "assume"), r[4][0] if r[4] else ("const", None))
                fl = next((x for x in subs if x[0] == "ref" and loc_s(x[1]).endswith(".%d" % pf)), None)
                if fl is None:
                    fl = next((x for x in subs if x[0] == "ref"), None)
                grecv = g[2][1] if g[0] == "op" and g[2] and g[2][0] == "assume" else None
                if grecv is None:
                    bad = "guard inside PoisonRef is not the result of a guard()/read_guard() call"
                elif not (fl and fl[0] == "ref" and loc_s(fl[1]) == "%s.%d" % (grecv, pf)):
                    bad = "PoisonRef pairs the guard of %s with the flag %s" % (grecv, vid(fl))
        if bad:
            res.bad(Violation("F1", top["path"], "pairing", bad, *_floc(top)))
        elif found:
            nsites += 1
            res.ok("site " + top["path"])
    res.need(3, "PoisonRef drop + construction sites (Drop, Lockable::guard, Sharable::read_guard at least)")
    return res


def rule_F2(ctx, R):
    res = RuleResult("F2", "Poisonable's own scoped calls poison in the unwind handler (before releasing) and never on the normal path")
    pf = _flag_field(ctx, POIS)
    for f in R.with_role("ACQ-SCOPED"):
        imp = ctx.F.impl_of_fn(f)
        if not imp or imp["self_ty"]["k"] != "adt" or imp["self_ty"]["path"] != POIS:
            continue
        paths, err, I = ctx.paths(f)
        if err:
            res.undecided(f["path"], "analysis", err, *_floc(f))
            continue
        bad = None
        for p in paths:
            users = p.ev("USER")
            sets = p.ev("FLAG_SET")
            user_unwound = users and any(e["k"] == "UNWIND_AT" and e.get("what") == "user closure" for e in p.events)
            if user_unwound:
                rel = [e for e in p.ev("REL") if e["i"] > users[0]["i"]]
                if len(sets) != 1 or sets[0]["recv"] != "a1.*.%d" % pf:
                    bad = "a panic in the closure does not poison this Poisonable (%s)" % [s["recv"] for s in sets]
                elif rel and sets[0]["i"] > rel[0]["i"]:
                    bad = "the lock is released before the flag is set (another thread can acquire an unpoisoned lock over broken data)"
            elif sets:
                bad = "poisoned although the closure did not panic"
            if bad:
                res.bad(Violation("F2", f["path"], "handler", bad + " (path: %s)" % p.trace()[:300], *_floc(f)))
                break
        if not bad:
            res.ok(f["path"])
    res.need(4, "Poisonable::scoped_*")
    return res


def _shape(v):
    """provenance class of a payload value: ops are replaced by their tag"""
    if v[0] == "op":
        t = v[2]
        return ("op", v[1] if not t else (t[0],) + tuple(x for x in t[1:3]))
    if v[0] == "agg":
        return ("agg", v[2], tuple(_shape(x) for x in v[4]))
    if v[0] == "ref":
        return ("ref", loc_s(v[1]))
    return v


def rule_F3(ctx, R):
    res = RuleResult("F3", "the flag is consulted wherever a Poisonable produces a guard or data reference: Err(PoisonError(x)) exactly on "
                           "the poisoned edge, Ok(x) otherwise, with the same payload x (a poisoned acquisition still yields a working guard)")
    pf = _flag_field(ctx, POIS)
    n = 0
    from rules_ts import entry_fns
    for f in entry_fns(ctx):
        imp = ctx.F.impl_of_fn(f)
        if not imp or imp["self_ty"]["k"] != "adt" or imp["self_ty"]["path"] != POIS:
            continue
        if f["path"] == ctx.A.flag_fn.get("read") or "inputs" not in f or f["output"].get("name") == "bool":
            continue
        if "ACQ-SCOPED" in R.roles(f):
            continue   # scoped calls hand the PoisonResult to the closure; it is built by data_mut/data_ref, judged themselves
        is_trait_item = bool(f.get("trait_item"))
        if not any((x["k"] == "adt" and (x["path"] == PERR or x["path"].endswith("TryLockPoisonableError"))) or
                   (x["k"] == "alias" and is_trait_item) for x in ty_walk(f["output"])):
            continue   # reports the flag without producing a guard or data reference (is_poisoned-like accessors, Debug)
        paths, err, I = ctx.paths(f, inline_assume_of=(POIS,))
        if err:
            res.undecided(f["path"], "analysis", err, *_floc(f))
            continue
        if not any(p.ev("FLAG_READ") for p in paths):
            continue
        bad = None
        payloads = {}
        for p in paths:
            if p.kind != "ret" or not p.value:
                continue
            fr = p.ev("FLAG_READ")
            if not fr and any(e.get("outcome") is False for e in p.ev("TRY")):
                continue   # contended try: nothing was acquired, nothing to report about poison
            if p.ev("USER"):
                continue   # scoped calls hand the PoisonResult to the closure; its construction site is data_mut/data_ref
            if len(fr) != 1 or not fr[0]["recv"].endswith(".%d" % pf):
                bad = "poison flag read %d times / not this Poisonable's flag" % len(fr)
                break
            pois = fr[0].get("outcome")
            acq = [e for e in p.events if e["k"] == "ACQ" or (e["k"] == "TRY" and e.get("outcome") is True)]
            if acq and fr[0]["i"] < acq[-1]["i"]:
                bad = ("the poison flag is sampled before the lock is acquired: a waiter that blocks while the holder panics "
                       "gets Ok although the data was left broken")
                break
            v = p.value
            if not (v[0] == "agg" and v[2] == "std::result::Result"):
                bad = "does not return a Result"
                break
            if pois is True:
                if not (v[3] == 1 and v[4][0][0] == "agg" and (v[4][0][2] == PERR or v[4][0][1] == "wrap" or v[4][0][2].endswith("TryLockPoisonableError"))):
                    bad = "poisoned edge does not return Err(PoisonError(..))"
                    break
                inner = v[4][0]
                while inner[0] == "agg" and (inner[2] == PERR or inner[1] == "wrap" or inner[2].endswith("TryLockPoisonableError")):
                    inner = inner[4][0]
                payloads[True] = _shape(inner)
            elif pois is False:
                if v[3] != 0:
                    bad = "unpoisoned edge returns Err"
                    break
                payloads[False] = _shape(v[4][0])
        if not bad:
            if set(payloads) != {True, False}:
                bad = "result does not depend on the poison flag both ways"
            elif payloads[True] != payloads[False]:
                bad = "poisoned and unpoisoned results carry different payloads: %r vs %r" % (payloads[True], payloads[False])
        if bad:
            res.bad(Violation("F3", f["path"], "result", bad, *_floc(f)))
        else:
            n += 1
            res.ok(f["path"])
    res.need(14, "Poisonable functions producing PoisonResult")
    return res


def handler_context(p, idx):
    """Is event `idx` of path `p` executed by an unwind handler (after a CAUGHT that has not yet been RESUMEd)?
    Returns (in_handler, events of the try body whose unwinding is being handled)."""
    evs = p.events
    depth = 0
    caught = None
    for j in range(idx - 1, -1, -1):
        k = evs[j]["k"]
        if k == "RESUME":
            depth += 1
        elif k == "CAUGHT":
            if depth == 0:
                caught = j
                break
            depth -= 1
    if caught is None:
        return False, []
    # the matching CATCH_BEGIN: skip completed (CATCH_END) and handled (CAUGHT) inner tries
    nest = 0
    for j in range(caught - 1, -1, -1):
        k = evs[j]["k"]
        if k in ("CATCH_END", "CAUGHT"):
            nest += 1
        elif k == "CATCH_BEGIN":
            if nest == 0:
                return True, evs[j + 1:caught]
            nest -= 1
    return True, evs[:caught]


def _entry_paths(ctx):
    from rules_ts import entry_fns
    for f in entry_fns(ctx):
        paths, err, I = ctx.paths(f)
        if err or not paths:
            continue
        yield f, paths


def rule_F4(ctx, R):
    res = RuleResult("F4", "who may poison: PoisonFlag::poison is called only from a Drop impl, from an unwind handler (2nd closure of "
                           "handle_unwind) or from a RawLock::poison impl; clear_poison stores false, is_poisoned only loads")
    F = ctx.F
    # every execution of the flag's set operation that an entry function can reach (helpers inlined): it must happen while an
    # unwind is being handled (after handle_unwind caught it, before it is resumed), inside a Drop impl (F1 decides when), or in
    # a RawLock::poison impl
    seen = {}
    for f, paths in _entry_paths(ctx):
        for p in paths:
            for e in p.ev("FLAG_SET"):
                efn = (F.fn_by_path.get(e["fn"].split("::{closure")[0]) or [None])[0]
                ti = (efn or {}).get("trait_item") or ""
                rti = f.get("trait_item") or ""
                inh, _ = handler_context(p, e["i"])
                # ... or it is guarded by `thread::panicking()` having answered true (the poison-on-drop idiom, whichever
                # function it lives in; F1 decides that PoisonRef::drop does exactly this)
                pk = [x for x in p.events[:e["i"]] if x["k"] == "PANICKING"]
                guarded = bool(pk) and pk[-1].get("outcome") is True
                ok = inh or guarded or ti in ("std::ops::Drop::drop", "lockable::RawLock::poison") or rti in ("std::ops::Drop::drop", "lockable::RawLock::poison")
                site = (f["path"], e.get("line"))
                if site in seen:
                    seen[site] = seen[site] and ok
                else:
                    seen[site] = ok
                if not ok:
                    seen[(f["path"], e.get("line"), "ev")] = (e, p)
    for site, ok in sorted((k, v) for k, v in seen.items() if len(k) == 2):
        if ok:
            res.ok("poison() reached from %s (line %s)" % site)
        else:
            e, p = seen[(site[0], site[1], "ev")]
            res.bad(Violation("F4", site[0], "poison-call", "PoisonFlag::poison is executed on a normal (non-unwinding) path of %s "
                              "(path: %s)" % (site[0], p.trace()[:300]), e.get("file"), e.get("line")))
    # the flag's own methods: read yields exactly the loaded value, set / clear write exactly the literal true / false
    I = ctx.M["make"]()
    want = {"read": "FLAG_READ", "clear": "FLAG_CLEAR", "set": "FLAG_SET"}
    for name, evk in want.items():
        try:
            fn = F.fn(ctx.A.flag_fn[name])
        except KeyError as e:
            res.undecided("<poison flag %s>" % name, "anchor", "no method of the flag type performs this operation")
            continue
        try:
            paths = I.analyze(fn)
        except Exception as e:
            res.undecided(fn["path"], "analysis", str(e), *_floc(fn))
            continue
        bad = None
        for p in paths:
            if p.kind != "ret":
                continue
            evs = p.ev("FLAG_READ", "FLAG_SET", "FLAG_CLEAR")
            mine = [e for e in evs if e["k"] == evk]
            other = [e for e in evs if e["k"] != evk and not (e["k"] == "FLAG_READ" and e.get("via"))]
            if len(mine) != 1 or other:
                bad = "performs %s (expected exactly one %s of the flag)" % ([e["k"] for e in evs], evk.split("_")[1].lower())
            elif name == "read":
                v = p.value
                rid = mine[0]["result"]
                okv = (v and v[0] == "op" and v[1] == rid) or (v and v[0] == "const" and isinstance(v[1], bool) and p.facts.get(rid) is v[1])
                if not okv:
                    bad = "does not return the loaded flag"
        if bad:
            res.bad(Violation("F4", fn["path"], name, "PoisonFlag::%s %s" % (name, bad), *_floc(fn)))
        else:
            res.ok("PoisonFlag::" + name)
    # a fresh flag is clear: the constructor(s) of the flag type store `false`
    if ctx.A.flag_adt:
        for f in F.fns:
            if "inputs" not in f or f["inputs"] or "mir" not in f:
                continue
            out = f["output"]
            if not (out["k"] == "adt" and out["path"] == ctx.A.flag_adt):
                continue
            if (f.get("trait_item") or "").startswith("std::default::Default"):
                res.ok(f["path"] + " (Default: AtomicBool::default() is false)")
                continue
            try:
                paths = I.analyze(f)
            except Exception as e:
                res.undecided(f["path"], "analysis", str(e), *_floc(f))
                continue
            bad = None
            for p in paths:
                if p.kind != "ret":
                    continue
                news = [e for e in _calls(p) if "atomic" in e["def"].lower() and e["def"].endswith("::new")]
                if news and news[0]["argv"][0] != ("const", False):
                    bad = "starts as %r" % (news[0]["argv"][0],)
            if bad:
                res.bad(Violation("F4", f["path"], "initial-state", "a fresh poison/kill flag %s: locks are born poisoned/killed" % bad, *_floc(f)))
            else:
                res.ok(f["path"] + " starts clear")
    res.need(10, "poison call sites + flag primitives")
    return res


def rule_F5(ctx, R):
    res = RuleResult("F5", "plain locks are never killed by user panics: RawLock::poison (kill) is executed only while an unwind "
                           "is being handled whose try body ran no user code, or by a delegating poison impl")
    F = ctx.F
    import rules_alg
    sites = {}

    def judge(root, label, paths):
        rti = root.get("trait_item") or ""
        for p in paths:
            for e in p.ev("KILL"):
                key = (label, e["fn"].split("::{closure")[0], e.get("line"))
                if rti == "lockable::RawLock::poison":
                    sites.setdefault(key, (None, e, p))
                    continue
                inh, body = handler_context(p, e["i"])
                bad = None
                if not inh:
                    bad = ("kill-outside-handler", "RawLock::poison (kill) is executed outside an unwind handler")
                elif any(b["k"] == "USER" for b in body):
                    bad = ("kill-on-user-panic", "a panic in user code kills the lock: the unwind being handled comes from a try body "
                                                 "that calls user code")
                if bad or key not in sites:
                    sites[key] = (bad, e, p)

    for f, paths in _entry_paths(ctx):
        judge(f, f["path"], paths)
    for f, label, kind, mode, pre in rules_alg.alg_functions(ctx):
        paths, err = rules_alg.explore(ctx, f, 2, mode, kind, faults=1, preheld=pre,
                                       loop_limit=(4 * (rules_alg.RETRIES + 1) if label.startswith("Retrying::raw_") and kind == "ACQ" else None),
                                       acq_limit=((rules_alg.RETRIES + 1) if label.startswith("Retrying::raw_") and kind == "ACQ" else None))
        if err:
            res.undecided(f["path"], "analysis", err, *_floc(f))
            continue
        judge(f, f["path"], paths)
    for key, (bad, e, p) in sorted(sites.items(), key=lambda kv: (kv[0][0], kv[0][1], kv[0][2] or 0)):
        if bad:
            res.bad(Violation("F5", key[0], bad[0], "%s (in %s; path: %s)" % (bad[1], key[1], p.trace()[:300]), e.get("file"), e.get("line")))
        else:
            res.ok("kill in %s reached from %s" % (key[1], key[0]))
    res.need(9, "RawLock::poison executions")
    return res


def rule_F7(ctx, R):
    res = RuleResult("F7", "a Poisonable hold ends only through PoisonRef's Drop (the one place that poisons when the thread is "
                           "panicking): no reachable function forgets a PoisonRef or moves its inner guard out without dropping it")
    n = 0
    for f, paths in _entry_paths(ctx):
        if not any(x["k"] == "adt" and x["path"] in (PREF, "poisonable::PoisonGuard") for t in f.get("inputs", []) for x in ty_walk(t)):
            continue
        n += 1
        _, _, I = ctx.paths(f)
        bad = None

        def mentions(v):
            if v is None:
                return False
            if v[0] == "op":
                t = I.optype.get(v[1])
                return t is not None and any(x["k"] == "adt" and x["path"] == PREF for x in ty_walk(t))
            if v[0] == "agg":
                return v[2] == PREF or any(mentions(x) for x in v[4])
            if v[0] == "ref":
                return False
            return False
        for p in paths:
            for e in p.ev("FORGET"):
                if mentions(e.get("val")):
                    bad = (e, "a PoisonRef is forgotten (%s): its Drop never runs, so a hold that ends while the thread is panicking "
                              "does not poison" % (e.get("via") or "mem::forget"))
        if bad:
            res.bad(Violation("F7", f["path"], "poisonref-forgotten", bad[1], bad[0].get("file"), bad[0].get("line")))
        else:
            res.ok(f["path"])
    res.need(10, "reachable functions taking a Poisonable guard")
    return res


def rule_F6(ctx, R):
    res = RuleResult("F6", "every exclusive data view handed to user code can poison: a scoped exclusive call over a generic lockable "
                           "poisons contained Poisonables when its closure panics")
    for f in R.with_role("ACQ-SCOPED"):
        paths, err, I = ctx.paths(f)
        if err:
            continue
        # receiver type of the first argument
        t = f["inputs"][0]
        base = t["ty"] if t["k"] == "ref" else t
        generic_member = base["k"] == "param" or (base["k"] == "adt" and base["path"] in COLLS)
        writes = any(e["k"] in ("ACQ", "TRY") and e["mode"] == "W" for p in paths for e in p.events)
        if not writes or not generic_member:
            continue
        bad = False
        owner = f["path"]
        for p in paths:
            if any(e["k"] == "UNWIND_AT" and e.get("what") == "user closure" for e in p.events):
                if not p.ev("FLAG_SET"):
                    bad = True
                    owner = f["path"]
        if bad:
            # attributed to the API function (the helper that contains the handler may be renamed, moved or inlined)
            res.bad(Violation("F6", owner, "no-poison-on-unwind", "a panic in the closure of an exclusive scoped call over a collection "
                              "leaves every contained Poisonable unpoisoned: the data view has no drop glue and the handler only releases "
                              "(reached from %s)" % f["path"], *_floc(f)), inst=f["path"])
        else:
            res.ok(f["path"])
    # de-duplicate by key (several collections share one helper)
    seen = set()
    uniq = []
    for v in res.violations:
        if v.key not in seen:
            seen.add(v.key)
            uniq.append(v)
    res.violations = uniq
    res.need(8, "exclusive scoped calls over generic lockables")
    return res


# ---------------------------------------------------------------------------------------------
def rule_D1(ctx, R):
    res = RuleResult("D1", "guard deref targets its own lock: Deref/DerefMut of every hold type returns a reference into the data cell "
                           "of the very lock its Drop releases")
    for i in ctx.F.impls:
        tr = i.get("trait")
        if tr not in ("std::ops::Deref", "std::ops::DerefMut"):
            continue
        st = i["self_ty"]
        if st["k"] != "adt" or st["path"] not in R.holdtypes:
            continue
        fld, mode = R.holdtypes[st["path"]]
        it = next(x for x in i["items"] if x["kind"].startswith("Fn"))
        f = ctx.F.fn_by_id[it["id"]]
        paths, err, I = ctx.paths(f)
        if err:
            res.undecided(f["path"], "analysis", err, *_floc(f))
            continue
        bad = None
        for p in paths:
            if p.kind != "ret":
                continue
            v = p.value
            pre = ("*", fld, "*")
            if not (v and v[0] == "ref" and v[1][0] == "O" and v[1][1] == "a1" and v[1][2][:3] == pre and v[1][2][-1] == "cell"):
                bad = "returns %r, not a reference into the data cell of the lock in field %d" % (v, fld)
            for pr in p.problems:
                bad = "accesses the cell in a mode its hold does not grant (%s)" % pr["k"]
        if bad:
            res.bad(Violation("D1", f["path"], tr.split("::")[-1], bad, *_floc(f)))
        else:
            res.ok("%s for %s" % (tr.split("::")[-1], st["path"]))
    res.need(5, "Deref/DerefMut impls of hold types")
    return res


def rule_V2(ctx, R):
    res = RuleResult("V2", "non-acquiring operations leave every hold as they found it: they release nothing except a hold they took "
                           "themselves by a successful try, and release that on every exit")
    n = 0
    for f in analysed_fns(ctx):
        if f.get("unsafe") or "NON-ACQ" not in R.roles(f):
            continue
        if not f.get("reachable"):
            continue   # crate-private helpers are analysed inlined into their reachable callers
        ti = f.get("trait_item") or ""
        imp = ctx.F.impl_of_fn(f)
        if ti == "std::ops::Drop::drop":
            continue   # dropping a guard/hold *is* its release (C05)
        if ti == "lockable::RawLock::poison":
            continue   # the kill operation itself (who may call it: F5)
        paths, err, I = ctx.paths(f)
        if err:
            if f.get("reachable"):
                res.undecided(f["path"], "analysis", err, *_floc(f))
            continue
        n += 1
        bad = None
        for p in paths:
            for e in p.events:
                if e["k"] == "ACQ":
                    bad = "performs a blocking acquisition of %s" % ctx.arg_name(f, e["recv"])
                if e["k"] in ("REL", "GDROP") and e.get("recv"):
                    mine = any(t["k"] == "TRY" and t.get("recv") == e["recv"] and t.get("outcome") is True and t["i"] < e["i"]
                               for t in p.events)
                    if not mine:
                        bad = "releases %s, which it did not acquire itself" % ctx.arg_name(f, e["recv"])
                if e["k"] == "KILL":
                    # the lock's own raw try-operation panicking is what a kill is for (Q1); anything else is a disturbance
                    inh, body = handler_context(p, e["i"])
                    own_fault = inh and any(b["k"] == "RAW" and b.get("owner") == e["recv"] for b in body) and \
                        any(b["k"] == "UNWIND_AT" and str(b.get("what", "")).startswith("raw ") for b in body)
                    if not own_fault:
                        bad = "kills lock %s" % ctx.arg_name(f, e["recv"])
            if p.kind in ("ret", "unwind"):
                held = [r for r, m in p.locks.items() if m in ("W", "R") and any(
                    t["k"] == "TRY" and t.get("recv") == r for t in p.events)]
                if held:
                    bad = "leaves %s locked on %s exit" % (ctx.arg_name(f, held[0]), "normal" if p.kind == "ret" else "unwinding")
            for pr in p.problems:
                if pr["k"] in ("REL_NOT_HELD", "ASSUME_NOT_HELD"):
                    bad = "%s on %s" % (pr["k"], ctx.arg_name(f, pr.get("recv") or "?"))
            if bad:
                res.bad(Violation("V2", f["path"], "disturbs-holds", bad + " (path: %s)" % p.trace()[:300], *_floc(f)))
                break
        if not bad:
            res.ok(f["path"])
    res.need(201, "safe reachable non-acquiring functions")
    return res


def rule_V3(ctx, R):
    res = RuleResult("V3", "poison accessors touch only the flag: is_poisoned reads it, clear_poison clears it once; neither touches a lock")
    pf = _flag_field(ctx, POIS)
    for name, kind in (("is_poisoned", "FLAG_READ"), ("clear_poison", "FLAG_CLEAR")):
        try:
            f = ctx.F.fn("poisonable::poisonable::<impl poisonable::Poisonable<L>>::" + name)
        except KeyError as e:
            res.undecided(name, "anchor", str(e))
            continue
        paths, err, I = ctx.paths(f)
        bad = err
        for p in paths or []:
            evs = [e for e in p.events if e["k"] not in ("UNWIND_AT",)]
            if p.kind == "ret":
                if [e["k"] for e in evs] != [kind] or evs[0]["recv"] != "a1.*.%d" % pf:
                    bad = "events %s (expected exactly one %s on self.poisoned)" % ([e["k"] for e in evs], kind)
                if name == "is_poisoned" and not bad:
                    v, rid = p.value, evs[0].get("result")
                    okv = (v and v[0] == "op" and v[1] == rid) or (v and v[0] == "const" and isinstance(v[1], bool) and p.facts.get(rid) is v[1])
                    if not okv:
                        bad = "does not return the flag"
        if bad:
            res.bad(Violation("V3", f["path"], name, bad, *_floc(f)))
        else:
            res.ok(f["path"])
    res.need(2, "poison accessors")
    return res


BOXED = "collection::BoxedLockCollection"


_LEAKS = ("Box::<T, A>::leak", "Box::<T>::into_raw", "Box::<T, A>::into_raw")   # both give up ownership of the heap cell


def rule_H1(ctx, R):
    res = RuleResult("H1", "heap-cell ownership of the boxed collection: Box::from_raw on its data only in Drop and in by-value consumers; "
                           "into_child = drop_in_place(locks), one from_raw, mem::forget(self); Drop = one from_raw, dropped; a rejected "
                           "try_new drops (not forgets) the collection")
    F = ctx.F
    a = F.adts.get(BOXED)
    if not a:
        res.undecided(BOXED, "anchor", "type not found")
        return res
    dropfn = F.fn(a["drop_fn"]) if a.get("drop_fn") else None
    if not dropfn:
        res.bad(Violation("H1", BOXED, "drop", "BoxedLockCollection has no Drop impl: its heap cell leaks"))
    # who calls from_raw / leak
    for f, t in call_sites(ctx, lambda c: c["def"] in ("std::boxed::Box::<T>::from_raw", "std::boxed::Box::<T, A>::from_raw_in")):
        top = F.top_fn(f)
        by_val = top.get("inputs") and top["inputs"][0]["k"] == "adt" and top["inputs"][0]["path"] == BOXED
        if (dropfn and top["id"] == dropfn["id"]) or by_val:
            res.ok("from_raw in " + top["path"])
        else:
            res.bad(Violation("H1", top["path"], "from_raw", "Box::from_raw outside Drop / a by-value consumer of the collection: "
                              "possible double free", f["span"]["file"], t.get("line")))
    def count(p, suffix):
        return len([e for e in _calls(p) if e["def"].split("::")[-1] == suffix or e["def"].endswith(suffix)])
    # Drop
    if dropfn:
        paths, err, I = ctx.paths(dropfn)
        bad = err
        for p in paths or []:
            if p.kind == "ret":
                fr = [e for e in _calls(p) if e["def"].endswith("from_raw")]
                if len(fr) != 1 or vid(fr[0]["argv"][0]) != "op:a1.*.0":
                    bad = "Drop performs %d from_raw on %s" % (len(fr), [vid(e["argv"][0]) for e in fr])
                elif not any(e["k"] == "MEMDROP" and e.get("val") == fr[0]["result"] for e in p.events) and \
                        not any(e["k"] == "DROPQ" and e.get("val") == fr[0]["result"] for e in p.events):
                    bad = "the re-created Box is not dropped"
                if any(not holds_no_user_value(e.get("ty"), ctx.F) for e in p.ev("FORGET")):
                    bad = "Drop forgets a value"
        # on every path - the unwinding ones too (a payload destructor may panic) - the child is destroyed at most once:
        # `drop_in_place(data)` and the drop of a `Box<UnsafeCell<L>>` re-created from `data` both destroy it; a
        # `Box<ManuallyDrop<..>>` only frees the cell
        for p in paths or []:
            if bad:
                break
            destroys = 0
            for e in _calls(p):
                nm = e["def"].split("::")[-1]
                if nm == "drop_in_place" and e.get("args") and vid(e["args"][0]).startswith(("op:a1.*.0", "ref:a1.*.0")):
                    destroys += 1
                elif e["def"].endswith("from_raw"):
                    ta = (e.get("targs") or [None])[0]
                    shell = ta is not None and ta.get("k") == "adt" and ta.get("path", "").endswith("ManuallyDrop")
                    dropped = any(x["k"] in ("MEMDROP", "DROPQ") and x.get("val") == e.get("result") for x in p.events)
                    if dropped and not shell:
                        destroys += 1
            if destroys > 1:
                bad = "the child is destroyed %d times on one path (%s exit): its values are dropped twice (path: %s)" % (
                    destroys, p.kind, p.trace()[:300])
        if bad:
            res.bad(Violation("H1", dropfn["path"], "drop", bad, *_floc(dropfn)))
        else:
            res.ok(dropfn["path"])
    # by-value consumers that touch the cell
    for f in analysed_fns(ctx):
        if not (f.get("inputs") and f["inputs"][0]["k"] == "adt" and f["inputs"][0]["path"] == BOXED):
            continue
        if not any(t["k"] == "call" and t["callee"].get("def", "").endswith("from_raw") for b in f["mir"]["blocks"] for t in [b["term"]]):
            continue
        paths, err, I = ctx.paths(f)
        bad = err
        for p in paths or []:
            if p.kind != "ret":
                continue
            fr = [e for e in _calls(p) if e["def"].endswith("from_raw")]
            fg = [e for e in p.ev("FORGET") if (e["val"][0] == "op" and e["val"][1] == "a1") or not holds_no_user_value(e.get("ty"), ctx.F)]
            dip = [e for e in _calls(p) if e["def"].endswith("drop_in_place")]
            if len(fr) != 1 or vid(fr[0]["argv"][0]) != "op:a1.0":
                bad = "%d from_raw on %s" % (len(fr), [vid(e["argv"][0]) for e in fr])
            elif len(fg) != 1 or not (fg[0]["val"][0] == "op" and fg[0]["val"][1] == "a1"):
                bad = "self is not forgotten (mem::forget / ManuallyDrop) exactly once on the path that takes the box (double free when self drops)"
            elif len(dip) > 1:
                bad = "the lock list is dropped in place %d times (%s)" % (len(dip), [vid(e["argv"][0]) for e in dip])
            elif not (p.value and (fr[0]["result"] in repr(p.value))):
                bad = "returned value does not come from the re-created box"
        if bad:
            res.bad(Violation("H1", f["path"], "consume", bad, *_floc(f)))
        else:
            res.ok(f["path"])
    # constructors: leak's result is the data field; rejected try_new drops the collection
    for f in analysed_fns(ctx):
        if not any(t["k"] == "call" and t["callee"].get("def", "").endswith(_LEAKS) for b in f["mir"]["blocks"] for t in [b["term"]]):
            continue
        paths, err, I = ctx.paths(f)
        bad = err
        for p in paths or []:
            if p.kind != "ret":
                continue
            lk = [e for e in _calls(p) if e["def"].endswith(_LEAKS)]
            v = p.value
            if not (v and v[0] == "agg" and v[2] == BOXED and len(lk) == 1 and vid(v[4][0]) == "op:" + lk[0]["result"]):
                bad = "leaked box does not become the collection's data pointer"
        if bad:
            res.bad(Violation("H1", f["path"], "leak", bad, *_floc(f)))
        else:
            res.ok(f["path"])
    for f in analysed_fns(ctx):
        out = f.get("output")
        if not out or not (out["k"] == "adt" and out["path"].endswith("Option") and any(x["k"] == "adt" and x["path"] == BOXED for x in ty_walk(out))):
            continue
        paths, err, I = ctx.paths(f)
        bad = err
        for p in paths or []:
            if p.kind != "ret" or not p.value:
                continue
            fr = [e for e in _calls(p) if e["def"].endswith("from_raw")]
            lk = [e for e in _calls(p) if e["def"].endswith(_LEAKS)]
            if p.value[3] == 0 and lk:
                if len(fr) != 1:
                    bad = "rejecting path frees the heap cell %d times (collection forgotten or double-dropped)" % len(fr)
                if any(not holds_no_user_value(e.get("ty"), ctx.F) for e in p.ev("FORGET")):
                    bad = "rejecting path forgets the collection: the user's data is leaked, never dropped"
            if p.value[3] == 1 and fr:
                bad = "accepting path frees the heap cell it returns"
        if bad:
            res.bad(Violation("H1", f["path"], "reject-path", bad, *_floc(f)))
        else:
            res.ok(f["path"])
    res.need(6, "heap-cell sites")
    return res


def rule_H2(ctx, R):
    res = RuleResult("H2", "no other leak/duplication primitive: mem::forget only in by-value consumers of the boxed collection; no "
                           "ManuallyDrop, ptr::read, mem::zeroed/uninitialized; transmute only between types equal up to lifetimes")
    import re
    F = ctx.F
    DENY = ("std::ptr::read", "std::ptr::read_unaligned", "std::ptr::read_volatile", "std::mem::zeroed", "std::mem::uninitialized",
            "std::mem::ManuallyDrop::<T>::new", "std::mem::transmute_copy", "std::ptr::copy", "std::ptr::copy_nonoverlapping")
    # (mem::replace / swap / take are safe, owning moves: they can neither leak nor duplicate a value)
    for f, t in call_sites(ctx, lambda c: c["def"] == "std::mem::forget" or c["def"] in DENY or "ManuallyDrop" in c["def"]):
        top = F.top_fn(f)
        if t["callee"]["def"] in ("std::mem::forget", "std::mem::ManuallyDrop::<T>::new") or \
                t["callee"]["def"].startswith("<std::mem::ManuallyDrop<T> as std::ops::Deref"):
            by_val = top.get("inputs") and top["inputs"][0]["k"] == "adt" and top["inputs"][0]["path"] == BOXED
            if by_val:
                res.ok("forget in " + top["path"])
                continue
            targ = next((a for a in t["callee"].get("args", []) if a.get("k") not in ("region", "const")), None)
            if t["callee"]["def"].startswith("<std::mem::ManuallyDrop<T> as std::ops::Deref"):
                st_ = t["callee"].get("impl_self") or {}
                targ = next((a for a in st_.get("args", []) if a.get("k") not in ("region", "const")), targ)
            if holds_no_user_value(targ, ctx.F):
                res.ok("forget of %s in %s (owns no user value)" % (targ["s"], top["path"]))
                continue
        res.bad(Violation("H2", top["path"], "primitive:" + t["callee"]["def"].split("::")[-1], "%s used in %s: values may be leaked or "
                          "duplicated" % (t["callee"]["def"], top["path"]), f["span"]["file"], t.get("line")))
    strip = lambda s: re.sub(r"\s*\+\s*'[a-z_]+", "", re.sub(r"'[a-z_]+\s*", "", s))
    for f in analysed_fns(ctx) + [g for g in F.fns if g["kind"] == "Closure" and "mir" in g]:
        m = f["mir"]
        for b in m["blocks"]:
            for s in b["stmts"]:
                if s["k"] == "assign" and s["rv"]["k"] == "cast" and "Transmute" in s["rv"]["kind"]:
                    op = s["rv"]["op"]
                    src = m["locals"][op["place"]["l"]]["ty"]["s"] if op["k"] in ("move", "copy") and not op["place"]["p"] else "?"
                    dst = s["rv"]["ty"]["s"]
                    if s["rv"]["ty"]["k"] in ("ptr", "prim"):
                        continue   # compiler-inserted pointer checks of debug builds (ptr -> ptr / ptr -> usize)
                    if strip(src) == strip(dst):
                        res.ok("transmute %s -> %s in %s" % (src, dst, f["path"]))
                    else:
                        res.bad(Violation("H2", F.top_fn(f)["path"], "transmute", "transmute between different types: %s -> %s" % (src, dst),
                                          f["span"]["file"], s.get("line")))
    res.need(2, "forget/transmute sites")
    return res


def rule_Q7(ctx, R):
    res = RuleResult("Q7", "only the lock that failed is killed: no function outside the RawLock implementations (and what they call) "
                           "kills a lock - an API-level function that reacts to a panicking release by poisoning the whole "
                           "collection kills members that were released normally")
    from rules_ts import entry_fns
    n = 0
    for f in entry_fns(ctx):
        if (f.get("trait_item") or "").startswith("lockable::RawLock::") or "inputs" not in f:
            continue
        paths, err, I = ctx.paths(f)
        if err or not paths:
            continue
        n += 1
        bad = None
        for p in paths:
            ks = [e for e in p.ev("KILL") if not e.get("derived")]
            # a function that executes lock_api operations on a leaf lock itself (a private keyless helper inlined into
            # `Debug`, a fair unlock) kills that leaf when the raw operation panics: that is the leaf protocol (Q1), not this
            raw_owners = set(e.get("owner") for e in p.ev("RAW") if e.get("owner"))
            ks = [e for e in ks if e.get("recv") not in raw_owners]
            if ks:
                bad = "kills %s (path: %s)" % (ctx.arg_name(f, ks[0]["recv"]), p.trace()[:300])
                break
        if bad:
            res.bad(Violation("Q7", f["path"], "api-kill", bad, *_floc(f)))
        else:
            res.ok(f["path"])
    res.need(100, "entry functions that are not RawLock operations")
    return res


def rule_V4(ctx, R):
    res = RuleResult("V4", "a non-acquiring operation probes a lock at most once: it never re-tries a lock it found busy (re-polling is "
                           "waiting) and has no loop around a try")
    n = 0
    for f in ctx.F.fns:
        if f.get("unsafe") or "NON-ACQ" not in R.roles(f) or "mir" not in f or not f.get("reachable") or f["kind"] == "Closure":
            continue
        paths, err, I = ctx.paths(f)
        if err or not paths:
            continue
        if not any(p.ev("TRY") for p in paths):
            continue
        n += 1
        bad = None
        for p in paths:
            seen = {}
            for e in p.ev("TRY"):
                seen[e["recv"]] = seen.get(e["recv"], 0) + 1
            rep = [r for r, c in seen.items() if c > 1]
            if rep:
                bad = "tries %s %d times in one call (path: %s)" % (ctx.arg_name(f, rep[0]), seen[rep[0]], p.trace()[:240])
            elif p.kind == "cut" and p.ev("TRY"):
                bad = "has a loop around a try (%s)" % (p.note or "")
        if bad:
            res.bad(Violation("V4", f["path"], "re-poll", bad, *_floc(f)))
        else:
            res.ok(f["path"])
    res.need(2, "non-acquiring functions that try a lock")
    return res
