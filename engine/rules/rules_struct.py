"""Structural rules about the lock implementations themselves: RAW mapping, kill protocol, hold types,
leaf enumeration, collection RawLock impls, sorting, duplicate detection, poisoning, heap-cell ownership."""
from common import RuleResult, Violation
from facts import ty_walk
from interp import loc_s
from rules_ts import analysed_fns
from rules_ts2 import call_sites, _count_op
from rules_cg import cg_of

RL = "lockable::RawLock"
HL_NAMES = ("raw_write", "raw_try_write", "raw_unlock_write", "raw_read", "raw_try_read", "raw_unlock_read")
# the mapping the rest of the crate relies on: HL op -> (kind, mode)
HL_SEM = {"raw_write": ("ACQ", "W"), "raw_try_write": ("TRY", "W"), "raw_unlock_write": ("REL", "W"),
          "raw_read": ("ACQ", "R"), "raw_try_read": ("TRY", "R"), "raw_unlock_read": ("REL", "R")}
# lock_api operation -> (kind, mode)
RAW_SEM = {"lock": ("ACQ", "W"), "try_lock": ("TRY", "W"), "unlock": ("REL", "W"),
           "lock_exclusive": ("ACQ", "W"), "try_lock_exclusive": ("TRY", "W"), "unlock_exclusive": ("REL", "W"),
           "lock_shared": ("ACQ", "R"), "try_lock_shared": ("TRY", "R"), "unlock_shared": ("REL", "R")}


def _floc(f):
    return f["span"]["file"], f["span"]["line"]


def rawlock_impl_fns(ctx, adt=None):
    out = []
    for imp in ctx.F.impls_of(RL):
        st = imp["self_ty"]
        if st["k"] != "adt":
            continue
        if adt and st["path"] not in adt:
            continue
        for it in imp["items"]:
            f = ctx.F.fn_by_id.get(it["id"])
            if f:
                out.append((st["path"], it["name"], f))
    return out


def leaf_locks(ctx):
    """RawLock ADTs that own a raw lock (a field whose type is a parameter bounded by a lock_api trait)."""
    out = set()
    for imp in ctx.F.impls_of(RL):
        st = imp["self_ty"]
        if st["k"] != "adt":
            continue
        for p in imp["predicates"]:
            if p["k"] == "trait" and p["trait"].startswith("lock_api::"):
                out.add(st["path"])
    return out


def rule_M2(ctx, R):
    res = RuleResult("M2", "RAW mapping: each HL op of Mutex/RwLock performs exactly one lock_api op of the same kind and mode "
                           "(Mutex's read ops delegate to its write ops), on its own raw lock field")
    leaves = leaf_locks(ctx)
    for adt, name, f in rawlock_impl_fns(ctx, leaves):
        if name not in HL_NAMES:
            continue
        paths, err, I = ctx.paths(f)
        if err:
            res.undecided(f["path"], "analysis", err, *_floc(f))
            continue
        want = HL_SEM[name]
        bad = None
        nret = 0
        for p in paths:
            if p.kind == "unwind":
                # a leaf operation that unwinds has at most attempted its one raw operation; in particular it releases nothing
                # (a "defensive" unlock in the handler of a failed acquisition frees another thread's hold)
                extra = [e for e in p.ev("RAW", "ACQ", "TRY", "REL") if not e.get("derived")]
                if len(extra) > 1:
                    worst = next((e for e in extra if e["k"] == "REL" or (e["k"] == "RAW" and RAW_SEM.get(e.get("op"), ("",))[0] == "REL")), extra[-1])
                    if not (want[0] == "REL" and len(extra) == 1):
                        bad = "on an unwinding path it also performs %s(%s): a failed or panicking %s must not touch the lock again" % (
                            worst["k"], worst.get("op") or worst.get("recv"), name)
                continue
            if p.kind != "ret":
                continue
            raws = p.ev("RAW")
            hls = p.ev("ACQ", "TRY", "REL")
            first = min([e["i"] for e in raws + hls] or [len(p.events)])
            # only acquisitions are refused on a killed lock, and only by a test made before the raw operation; a release must
            # reach the raw lock whatever the flag says (killing "does not affect anything currently holding the lock")
            killed = want[0] != "REL" and any(e["k"] == "FLAG_READ" and e.get("outcome") is True and e["i"] < first for e in p.events)
            if killed:
                if raws or hls:
                    bad = "raw operation performed although the lock is killed"
                continue
            nret += 1
            if len(raws) + len(hls) != 1:
                bad = "%d raw/HL operations on the normal path (expected exactly one)" % (len(raws) + len(hls))
            elif raws:
                sem = RAW_SEM.get(raws[0]["op"])
                if sem != want:
                    bad = "performs lock_api `%s` (%s) where %s is required" % (raws[0]["op"], sem, want)
                elif not raws[0]["recv"].startswith("a1.*."):
                    bad = "raw operation on %s, not on a field of self" % raws[0]["recv"]
            else:
                e = hls[0]
                # delegation (Mutex has no shared mode): same kind, exclusive mode, on self
                if e["k"] != want[0] or e["recv"] != "a1.*" or e["mode"] != "W":
                    bad = "delegates to %s(%s,%s) where %s is required" % (e["k"], e["recv"], e["mode"], want)
            if bad:
                break
        if not bad and nret == 0:
            bad = "no normal path performs the operation"
        if bad:
            res.bad(Violation("M2", f["path"], name, "%s::%s %s" % (adt, name, bad), *_floc(f)))
        else:
            res.ok("%s::%s" % (adt, name))
    res.need(12, "HL ops of leaf locks")
    return res


def rule_Q1(ctx, R):
    res = RuleResult("Q1", "every lock_api operation any entry function can reach is executed inside a handle_unwind try scope whose "
                           "handler kills the lock it belongs to; a panic in it kills that lock and keeps unwinding")
    from rules_ts import entry_fns
    leaves = leaf_locks(ctx)
    leaf_impl = set(f["id"] for adt, name, f in rawlock_impl_fns(ctx, leaves))
    nraw = 0
    for f in entry_fns(ctx):
        paths, err, I = ctx.paths(f)
        if err or not paths:
            continue
        has_raw = False
        bad = None
        for p in paths:
            for e in p.ev("RAW"):
                if not (e["op"] in RAW_SEM or e["op"].startswith(("lock", "try_lock", "unlock", "downgrade", "upgrade", "bump"))):
                    continue     # queries such as is_locked() neither acquire nor release
                has_raw = True
                owner = e.get("owner") or ("a1.*" if f["id"] in leaf_impl else None)
                # inside an open catch scope?
                depth = 0
                for b in p.events[:e["i"]]:
                    if b["k"] == "CATCH_BEGIN":
                        depth += 1
                    elif b["k"] in ("CATCH_END", "CAUGHT"):
                        depth -= 1
                if depth <= 0:
                    bad = (e, "raw `%s` is not executed inside a handle_unwind try scope: a panic in it is not turned into a kill" % e["op"])
                    continue
                after = p.events[e["i"] + 1:]
                after = [a for a in after if not a.get("derived") or a["k"] == "KILL"]
                if after and after[0]["k"] == "UNWIND_AT":
                    kinds = [a["k"] for a in after]
                    if "CAUGHT" not in kinds or not any(a["k"] == "KILL" and (owner is None or a["recv"] == owner) for a in after):
                        bad = (e, "a panic in raw `%s` does not kill the lock" % e["op"])
                    elif p.kind != "unwind":
                        bad = (e, "a panic in raw `%s` is swallowed" % e["op"])
        if has_raw:
            nraw += 1
            if bad:
                res.bad(Violation("Q1", f["path"], "raw-call:" + bad[0]["op"], bad[1], bad[0].get("file"), bad[0].get("line")))
            else:
                res.ok(f["path"])
    res.need(9, "entry functions executing a lock_api operation")
    return res


def rule_Q2(ctx, R):
    res = RuleResult("Q2", "a killed lock refuses: acquiring HL ops test the kill flag first; killed => blocking ops panic, try ops "
                           "return false, and no raw operation is attempted")
    leaves = leaf_locks(ctx)
    for adt, name, f in rawlock_impl_fns(ctx, leaves):
        if name not in ("raw_write", "raw_try_write", "raw_read", "raw_try_read"):
            continue
        paths, err, I = ctx.paths(f)
        if err:
            res.undecided(f["path"], "analysis", err, *_floc(f))
            continue
        bad = None
        saw_killed = False
        for p in paths:
            evs = p.events
            first_op = next((e for e in evs if e["k"] in ("RAW", "ACQ", "TRY")), None)
            flag = next((e for e in evs if e["k"] == "FLAG_READ"), None)
            if first_op is not None and first_op["k"] in ("ACQ", "TRY"):
                continue   # pure delegation to another HL op of self: that op performs the test
            if first_op is not None and (flag is None or flag["i"] > first_op["i"] or not flag["recv"].startswith("a1.*.")):
                bad = "raw operation without a preceding test of the lock's kill flag"
                break
            if flag is not None and flag.get("outcome") is True:
                saw_killed = True
                if first_op is not None:
                    bad = "raw operation attempted although the kill flag is set"
                elif name.startswith("raw_try"):
                    if not (p.kind == "ret" and p.value == ("const", False)):
                        bad = "killed try does not return false"
                elif p.kind == "ret":
                    bad = "killed blocking acquisition returns normally instead of panicking"
            if bad:
                break
        delegating = all((next((e for e in p.events if e["k"] in ("RAW", "ACQ", "TRY")), None) or {"k": "ACQ"})["k"] in ("ACQ", "TRY")
                         for p in paths)
        if not bad and not saw_killed and not delegating:
            bad = "no path handles a killed lock"
        if bad:
            res.bad(Violation("Q2", f["path"], name, "%s::%s: %s" % (adt, name, bad), *_floc(f)))
        else:
            res.ok("%s::%s" % (adt, name))
    res.need(8, "acquiring HL ops of leaf locks")
    return res


def rule_X1(ctx, R):
    res = RuleResult("X1", "single-lock try is the raw try: on the not-killed path raw_try_* returns the unmodified result of the "
                           "mapped lock_api try")
    leaves = leaf_locks(ctx)
    for adt, name, f in rawlock_impl_fns(ctx, leaves):
        if name not in ("raw_try_write", "raw_try_read"):
            continue
        paths, err, I = ctx.paths(f)
        if err:
            res.undecided(f["path"], "analysis", err, *_floc(f))
            continue
        bad = None
        for p in paths:
            if p.kind != "ret":
                continue
            raws = p.ev("RAW")
            tries = p.ev("TRY")
            v = p.value

            def same(v_, rid):
                # the result itself, or - when the code branched on it (bool -> enum -> bool) - the literal it was found to be
                if v_ and v_[0] == "op" and v_[1] == rid:
                    return True
                return bool(v_) and v_[0] == "const" and isinstance(v_[1], bool) and p.facts.get(rid) is v_[1]
            if raws:
                if not same(v, raws[0].get("result")):
                    bad = "returned value %r is not the raw try's result" % (v,)
            elif tries:
                if not same(v, tries[0].get("result")):
                    bad = "returned value %r is not the delegated try's result" % (v,)
        if bad:
            res.bad(Violation("X1", f["path"], name, bad, *_floc(f)))
        else:
            res.ok("%s::%s" % (adt, name))
    res.need(4, "raw_try_* of leaf locks")
    return res


def rule_M1(ctx, R):
    res = RuleResult("M1", "hold types: Drop performs exactly one release, in the mode the hold is created with, on the lock in its "
                           "lock field; holds are not Clone/Copy; every construction site is dominated by an acquisition (T1)")
    hd = ctx.M["hold_detail"]
    for p, (fld, mode) in sorted(R.holdtypes.items()):
        bad = [i for i in ctx.F.impls if i.get("trait") in ("std::clone::Clone", "std::marker::Copy")
               and i["self_ty"]["k"] == "adt" and i["self_ty"]["path"] == p]
        if bad:
            res.bad(Violation("M1", p, "impl " + bad[0]["trait"], "hold type %s is %s: one acquisition, several releases"
                              % (p, bad[0]["trait"]), bad[0]["span"]["file"], bad[0]["span"]["line"]))
        else:
            res.ok("%s: %s" % (p, hd.get(p)))
    # every ADT that has a Drop impl containing a release must have been recognised as a hold type
    for a in ctx.F.adts.values():
        if a.get("drop_fn") and a["path"] not in R.holdtypes:
            d = hd.get(a["path"], "")
            dfn = ctx.F.fn(a["drop_fn"])
            paths, err, I = ctx.paths(dfn)
            if err or any(e["k"] in ("REL", "GDROP") for p in (paths or []) for e in p.events):
                res.bad(Violation("M1", a["path"], "drop", "Drop impl of %s releases locks but not as exactly one release of one "
                                  "field (%s)" % (a["path"], d or err), *_floc(dfn)))
    # the mode of each hold type must match how the lock's guard()/read_guard() is used
    exp = {}
    for tr, names in (("lockable::Lockable", {"guard": "W"}), ("lockable::Sharable", {"read_guard": "R"})):
        for imp in ctx.F.impls_of(tr):
            for it in imp["items"]:
                if it["name"] in names:
                    f = ctx.F.fn_by_id[it["id"]]
                    paths, err, I = ctx.paths(f)
                    for p in paths or []:
                        for e in p.ev("ASSUME"):
                            if e.get("op") == "hold" and e["mode"] != names[it["name"]]:
                                res.bad(Violation("M1", f["path"], "mode", "%s builds a %s-mode hold (%s)" % (
                                    it["name"], e["mode"], e.get("hold")), *_floc(f)))
    res.need(3, "hold types")
    return res


def rule_DELEG(ctx, R):
    res = RuleResult("E2d", "wrapper locks delegate: each HL op of Poisonable performs exactly the same HL op on its inner lock")
    for adt, name, f in rawlock_impl_fns(ctx, {"poisonable::Poisonable"}):
        paths, err, I = ctx.paths(f)
        if err:
            res.undecided(f["path"], "analysis", err, *_floc(f))
            continue
        bad = None
        for p in paths:
            if p.kind != "ret":
                continue
            hls = p.ev("ACQ", "TRY", "REL", "KILL")
            if name == "poison":
                ok = len(hls) == 1 and hls[0]["k"] == "KILL"
            else:
                ok = len(hls) == 1 and (hls[0]["k"], hls[0].get("mode")) == HL_SEM[name]
            # receiver: the wrapped lock (canonicalised to self because Poisonable's data projection is `inner`)
            if not ok or hls[0]["recv"] != "a1.*":
                bad = "does not delegate to the same operation of the inner lock: %s" % p.trace()
            if name.startswith("raw_try") and not (p.value and p.value[0] == "op" and p.value[1] == hls[0].get("result")):
                bad = "does not return the inner try's result"
        if bad:
            res.bad(Violation("E2d", f["path"], name, bad, *_floc(f)))
        else:
            res.ok("%s::%s" % (adt, name))
    res.need(7, "HL ops of Poisonable")
    return res


# ---------------------------------------------------------------------------------------------
COLLS = ("collection::BoxedLockCollection", "collection::RefLockCollection",
         "collection::OwnedLockCollection", "collection::RetryingLockCollection")
SORTING = ("collection::BoxedLockCollection", "collection::RefLockCollection")
SORT_NAMES = ("sort_by_key", "sort_unstable_by_key", "sort_by_cached_key")
ITER_OK = ("std::iter::IntoIterator::into_iter", "std::iter::Iterator::next")


def vid(v):
    if v is None:
        return None
    if v[0] == "ref":
        loc = v[1]
        if loc[0] == "O" and loc[2] and loc[2][-1] == "*":
            # a reference to the pointee of an opaque pointer is that pointer
            return "op:" + loc_s(("O", loc[1], loc[2][:-1]))
        return "ref:" + loc_s(loc)
    if v[0] == "op":
        return "op:" + v[1]
    return repr(v)


def _calls(p, suffix=None):
    return [e for e in p.events if e["k"] == "CALL" and (suffix is None or e["def"].endswith(suffix))]


def _field_index(ctx, adt, name):
    for i, f in enumerate(ctx.F.adts[adt]["variants"][0]["fields"]):
        if f["name"] == name:
            return i
    return None


def lock_list_path(ctx, adt, _depth=0):
    """field path (tuple of field indices) from a sorting collection to its cached lock list - a `Vec<&dyn RawLock>` /
    `Box<[&dyn RawLock]>`, possibly wrapped in crate-private newtypes - or None"""
    a = ctx.F.adts.get(adt)
    if not a or _depth > 3 or not a["variants"]:
        return None
    for i, f in enumerate(a["variants"][0]["fields"]):
        t = f["ty"]
        if t["k"] == "adt" and (t["path"].endswith("Vec") or t["path"].endswith("Box")) and \
                any(x["k"] == "dyn" and x.get("principal") == RL for x in ty_walk(t)):
            return (i,)
        if t["k"] == "adt" and t["path"] in ctx.F.adts:
            sub_ = lock_list_path(ctx, t["path"], _depth + 1)
            if sub_ is not None:
                return (i,) + sub_
    return None


def descend(v, path):
    """follow a field path through aggregate values"""
    for i in path:
        if v is None or v[0] != "agg" or i >= len(v[4]):
            return None
        v = v[4][i]
    return v


def lock_list_field(ctx, adt):
    """index of the cached lock-list field (Vec<&dyn RawLock>) of a sorting collection, if any"""
    for i, f in enumerate(ctx.F.adts[adt]["variants"][0]["fields"]):
        t = f["ty"]
        if t["k"] == "adt" and (t["path"].endswith("Vec") or t["path"].endswith("Box")) and \
                any(x["k"] == "dyn" and x.get("principal") == RL for x in ty_walk(t)):
            return i
    return None


def seq_container_kind(t):
    """'vec' | 'box' | 'array' | 'slice' for the std sequence containers, else None"""
    if t["k"] == "adt" and t["path"].endswith("::Vec"):
        return "vec"
    if t["k"] == "adt" and t["path"].endswith("::Box") and t.get("args") and t["args"][0]["k"] == "slice":
        return "box"
    if t["k"] == "array":
        return "array"
    if t["k"] == "slice":
        return "slice"
    return None


def run_on_self_list(ctx, f, m, elem_ty=None, by="ref", model_vecs=False, const_params=None):
    """Analyse a method of a sequence container (or of a sorting collection) with `self` bound to a modelled list of m
    elements.  Returns (paths, err, I, list id)."""
    import listmodel
    from interp import State, Undecided, Ref
    I = ctx.M["make"]()
    I.model_vecs = model_vecs
    I.loop_limit = m + 4
    I.const_params = dict(const_params or {})
    # every const generic of the analysed function / its impl stands for the list length (`[T; N]`, whatever N is called)
    m_val = next(iter(I.const_params.values()), m)
    for g in f.get("generics") or []:
        if g.get("kind") == "const":
            I.const_params.setdefault(g["name"], m_val)
    st_ = State()
    mir = f["mir"]
    t1 = mir["locals"][1]["ty"]
    base = t1["ty"] if t1["k"] == "ref" else t1
    args = []
    lid = "SELF"
    if base["k"] == "adt" and base["path"] in SORTING:
        lid = "LIST"
        lp = lock_list_path(ctx, base["path"]) or (lock_list_field(ctx, base["path"]),)
        listmodel.new_list(I, lid, m, {"k": "ref", "mut": False, "s": "&dyn lockable::RawLock",
                                       "ty": {"k": "dyn", "principal": RL, "s": "dyn lockable::RawLock"}})
        I.oploc["a1"] = ("O", "a1", ())
        I.optype["a1"] = t1
        st_.heap[("O", "a1", ("*",) + tuple(lp))] = listmodel.view(lid, 0, m)
        args.append(("op", "a1", None))
    else:
        ety = elem_ty or (base["ty"] if base["k"] in ("array", "slice") else (base["args"][0]["ty"] if seq_container_kind(base) == "box" else base["args"][0]))
        v = listmodel.new_list(I, lid, m, ety)
        if t1["k"] == "ref":
            st_.heap[("O", "selfcell", ())] = v
            I.oploc["selfcell"] = ("O", "selfcell", ())
            I.optype["selfcell"] = base
            args.append(Ref(("O", "selfcell", ())))
        else:
            args.append(v)
    for i in range(2, mir["arg_count"] + 1):
        rid = "a%d" % i
        I.oploc[rid] = ("O", rid, ())
        I.optype[rid] = mir["locals"][i]["ty"]
        args.append(("op", rid, None))
    try:
        return I.analyze(f, args, st_), None, I, lid
    except Undecided as e:
        return None, str(e), I, lid
    except RecursionError:
        return None, "recursion limit", I, lid


def _getptrs_semantic(ctx, f, st):
    """get_ptrs of the std sequence containers and of the sorting collections, decided on a modelled list of elements:
    whatever the loop / iterator form, element k must be asked for its locks exactly once, in order, into the caller's
    vector (containers); the cached sorted list must be appended in order (sorting collections).  None = not that kind."""
    kind = seq_container_kind(st)
    sorting = st["k"] == "adt" and st["path"] in SORTING
    if not kind and not sorting:
        return None
    for m in (0, 2, 3):
        paths, err, I, lid = run_on_self_list(ctx, f, m, const_params={"N": m})
        if err:
            return None, "undecided: " + err
        for p in paths:
            if p.kind == "cut":
                return None, "undecided: loop not resolved on a list of %d elements (%s)" % (m, p.note)
            if p.kind != "ret":
                continue
            gp = [(e["recv"], vid(e["intov"]) if "intov" in e else vid(e.get("into"))) for e in p.ev("GETPTRS")]
            pushes = [(vid(e["argv"][0]), vid(e["argv"][1])) for e in _calls(p, "Vec::<T, A>::push")]
            if sorting:
                want = [("op:a2", "op:%s.[%d]" % (lid, k)) for k in range(m)]
                if gp:
                    return None, "asks %s for its locks instead of handing out the cached sorted list" % gp[0][0]
                if pushes != want:
                    return None, "appends %s to the caller's vector, expected the %d cached locks in order" % (pushes, m)
            else:
                want = [("%s.[%d]" % (lid, k), "op:a2") for k in range(m)]
                if pushes:
                    return None, "pushes %s itself" % (pushes[0][1],)
                if gp != want:
                    return None, "with %d elements: get_ptrs is called on %s, expected every element once, in order, into the caller's vector" % (m, gp)
    return ("cached(sorted list)" if sorting else "container(%s: every element once, in order)" % kind), None


def rule_E1(ctx, R):
    res = RuleResult("E1", "leaf enumeration: every Lockable::get_ptrs is a leaf (pushes self once), a delegate (one get_ptrs on its "
                           "data), a container (one get_ptrs per field / per element of an unfiltered loop) or a cached sorted list")
    for imp in ctx.F.impls_of("lockable::Lockable"):
        it = next((x for x in imp["items"] if x["name"] == "get_ptrs"), None)
        if not it:
            continue
        f = ctx.F.fn_by_id[it["id"]]
        st = imp["self_ty"]
        sem = _getptrs_semantic(ctx, f, st)
        if sem is not None:
            cls, why = sem
            if cls:
                res.ok("%s: %s" % (st["s"], cls))
            else:
                res.bad(Violation("E1", f["path"], "shape", "get_ptrs of %s: %s" % (st["s"], why), *_floc(f)))
            continue
        paths, err, I = ctx.paths(f)
        if err:
            res.undecided(f["path"], "analysis", err, *_floc(f))
            continue
        rets = [p for p in paths if p.kind == "ret"]
        cuts = [p for p in paths if p.kind == "cut"]
        cls = None
        why = None
        if not cuts:
            shapes = set()
            for p in rets:
                gp = p.ev("GETPTRS")
                pushes = _calls(p, "Vec::<T, A>::push")
                ext = _calls(p, "Vec::<T, A>::extend_from_slice")
                shapes.add((tuple((e["recv"], vid(e["intov"])) for e in gp),
                            tuple(vid(e["argv"][1]) for e in pushes),
                            tuple(vid(e["argv"][1]) for e in ext),
                            tuple(vid(e["argv"][0]) for e in pushes + ext)))
            if len(shapes) != 1:
                why = "paths disagree: %s" % sorted(shapes)
            else:
                gp, pushes, ext, targets = next(iter(shapes))
                if any(t != "op:a2" for t in targets) or any(i != "op:a2" for _, i in gp):
                    why = "locks are collected into something other than the caller's vector"
                elif pushes == ("op:a1",) and not gp and not ext:
                    cls = "leaf"
                elif len(gp) == 1 and not pushes and not ext and st["k"] != "tuple" and \
                        (gp[0][0] == "a1.*" or gp[0][0].startswith("a1.*.")):
                    cls = "delegate(%s)" % gp[0][0]
                elif st["k"] == "tuple" and not pushes and not ext:
                    want = tuple("a1.*.%d" % i for i in range(len(st["elems"])))
                    if tuple(r for r, _ in gp) == want:
                        cls = "container(tuple/%d)" % len(want)
                    else:
                        why = "tuple fields enumerated as %s, expected %s" % ([r for r, _ in gp], list(want))
                elif ext and not gp and not pushes and st["k"] == "adt" and st["path"] in SORTING:
                    lf = lock_list_field(ctx, st["path"])
                    if lf is not None and ext == ("ref:a1.*.%d" % lf,):
                        cls = "cached(sorted list field %d)" % lf
                    else:
                        why = "extends from %s, not from the cached lock list" % (ext,)
                else:
                    why = "unrecognised shape: get_ptrs=%s push=%s extend=%s" % (gp, pushes, ext)
        else:
            # loop over all elements: into_iter(self) ; next ; get_ptrs(element)
            ok = True
            seen_gp = False
            for p in paths:
                others = [e for e in _calls(p) if e.get("base") not in ITER_OK]
                if others:
                    ok = False
                    why = "loop uses %s (only a plain `for` over all elements is accepted)" % others[0]["def"]
                its = [e for e in _calls(p) if e.get("base") == ITER_OK[0]]
                if its and vid(its[0]["argv"][0]) not in ("op:a1", "op:a1.*"):
                    ok = False
                    why = "iterates over %s, not over self" % vid(its[0]["argv"][0])
                nexts = [e["result"] for e in _calls(p) if e.get("base") == ITER_OK[1]]
                for e in p.ev("GETPTRS"):
                    seen_gp = True
                    if not any(e["recv"].startswith(n + ".") for n in nexts) or vid(e["intov"]) != "op:a2":
                        ok = False
                        why = "get_ptrs on %s is not on the loop element / not into the caller's vector" % e["recv"]
            if ok and seen_gp:
                cls = "container(loop)"
            elif ok:
                why = "loop body never calls get_ptrs"
        if cls == "leaf" and st["k"] == "adt" and st["path"] not in leaf_locks(ctx):
            # a wrapper may present itself as ONE lock only if it can never contain borrowed locks: every construction
            # site sits under an OwnedLockable bound (then no member is reachable from outside, cf. O1)
            sites = [g for g, adt, _ in _agg_sites(ctx, {st["path"]})]
            loose = [g for g in sites if not _has_owned_bound(ctx.F.top_fn(g))]
            if loose or not sites:
                cls = None
                why = ("pushes itself as one opaque lock although it can be built from borrowed locks (%s): duplicates inside it "
                       "are invisible to an enclosing duplicate check and its members leave the global address order" % (
                           ", ".join(sorted(set(ctx.F.top_fn(g)["path"].split("::")[-1] for g in loose))) or "no constructor found"))
        if cls:
            res.ok("%s: %s" % (st["s"], cls))
        else:
            res.bad(Violation("E1", f["path"], "shape", "get_ptrs of %s: %s" % (st["s"], why), *_floc(f)))
    res.need(19, "Lockable::get_ptrs impls")
    return res


def _list_identity(ctx, adt, p):
    """identity of the lock list used on a path of a collection's RawLock op"""
    lf = lock_list_field(ctx, adt) if adt in SORTING else None
    ids = set()
    for e in p.events:
        if e["k"] == "PRIM" and (e.get("role") or "").startswith("ordered_"):
            ids.add(vid(e["argv"][0]))
        if e["k"] == "CALL" and e["def"] == ITER_OK[0]:
            ids.add(vid(e["argv"][0]))
    return ids


def rule_E2(ctx, R):
    res = RuleResult("E2", "each collection's RawLock ops all work on one list expression (the cached sorted list, or "
                           "get_locks_unsorted(&self.data)), with mode purity; acquisitions go through the matching ordered_* helper")
    for adt in COLLS:
        lists = {}
        for a, name, f in rawlock_impl_fns(ctx, {adt}):
            paths, err, I = ctx.paths(f)
            if err:
                res.undecided(f["path"], "analysis", err, *_floc(f))
                continue
            bad = None
            want = HL_SEM.get(name)
            # what is the list?
            src = set()
            for p in paths:
                prims = {e["result"]: e for e in p.ev("PRIM")}
                for e in p.events:
                    cand = None
                    if e["k"] == "PRIM" and (e.get("role") or "").startswith("ordered_"):
                        cand = e["argv"][0]
                    elif e["k"] == "CALL" and (e.get("base") == ITER_OK[0] or e["def"].split("::")[-1] == "for_each"):
                        cand = e["argv"][0]
                    elif e["k"] == "CALL" and e["def"].endswith("::is_empty"):
                        cand = e["argv"][0]
                    if cand is None:
                        continue
                    # follow plain iterator adaptors back to the list they iterate
                    byres = {x.get("result"): x for x in p.events if x["k"] == "CALL"}
                    hops = 0
                    while cand[0] == "op" and cand[1] in byres and hops < 6 and \
                            byres[cand[1]]["def"].split("::")[-1] in ("iter", "enumerate", "into_iter", "deref", "rev", "copied", "cloned"):
                        cand = byres[cand[1]]["argv"][0]
                        hops += 1
                    if cand[0] == "op" and cand[1] in prims:
                        pe = prims[cand[1]]
                        src.add("%s(%s)" % (pe.get("role") or pe["def"].split("::")[-1], vid(pe["argv"][0])))
                    else:
                        src.add(vid(cand))
                # mode purity
                if want:
                    for e in p.ev("ACQ", "TRY", "REL"):
                        if e["mode"] != want[1]:
                            bad = "%s op inside %s" % (e["mode"], name)
                        if want[0] == "REL" and e["k"] != "REL":
                            bad = "acquisition inside a release op"
                    for e in p.ev("PRIM"):
                        d = e.get("role") or ""
                        if d.startswith("ordered_"):
                            exp = {"raw_write": "ordered_write", "raw_read": "ordered_read",
                                   "raw_try_write": "ordered_try_write", "raw_try_read": "ordered_try_read"}.get(name)
                            if d != exp:
                                bad = "%s calls %s (expected %s)" % (name, d, exp)
                        if d.startswith("recover_") and (("writes" in d) != (want[1] == "W")):
                            bad = "%s rolls back with %s" % (name, e["def"].split("::")[-1])
                    if name.startswith("raw_try") and p.kind == "ret":
                        ords = [e for e in p.ev("PRIM") if (e.get("role") or "").startswith("ordered_try")]
                        if ords and not (p.value and p.value[0] == "op" and p.value[1] == ords[0]["result"]):
                            bad = "result of %s is not returned unmodified" % ords[0]["def"].split("::")[-1]
            lists[name] = src
            if want and want[0] == "REL":
                # unlock loops: plain for over the list, REL on each element
                anyrel = any(p.ev("REL") for p in paths)
                others = [e["def"] for p in paths for e in _calls(p) if e.get("base") not in ITER_OK
                          and e["def"].split("::")[-1] not in ("iter", "for_each", "deref", "into_iter", "rev", "copied", "cloned")]
                if not anyrel:
                    bad = "release op releases nothing"
                elif others:
                    bad = "release loop uses %s" % others[0]
            if want and want[0] in ("ACQ", "TRY") and adt != "collection::RetryingLockCollection":
                if not any((e.get("role") or "").startswith("ordered_") for p in paths for e in p.ev("PRIM")):
                    bad = "acquisition does not go through an ordered_* helper"
            if bad:
                res.bad(Violation("E2", f["path"], name, "%s::%s: %s" % (adt, name, bad), *_floc(f)))
            else:
                res.ok("%s::%s list=%s" % (adt.split("::")[-1], name, sorted(src)))
        allsrc = set()
        for name, s in lists.items():
            allsrc |= s
        if len(allsrc) != 1:
            res.bad(Violation("E2", adt, "one-list", "RawLock ops of %s use different lock lists: %s" % (
                adt, {k: sorted(v) for k, v in lists.items()})))
        else:
            only = next(iter(allsrc))
            lf = lock_list_field(ctx, adt) if adt in SORTING else None
            good = (only == "ref:a1.*.%d" % lf) if lf is not None else only.startswith("get_locks_unsorted(ref:a1.*")
            if not good:
                res.bad(Violation("E2", adt, "list-source", "lock list of %s is %s" % (adt, only)))
            else:
                res.ok("%s: single list %s" % (adt.split("::")[-1], only))
    res.need(32, "collection HL ops + list agreement")
    return res


def _sort_key_is_address(ctx, closure_val):
    """The sort key closure returns the (thin) address of the lock it is given: only deref/raw-borrow/pointer casts."""
    if not (closure_val and closure_val[0] == "agg" and closure_val[1] == "closure"):
        return False, "sort key is not a closure literal"
    cfn = ctx.F.fn_by_id.get(closure_val[2])
    paths, err, I = ctx.paths(cfn)
    if err:
        return False, err
    for p in paths:
        if p.kind == "ret":
            v = p.value
            if not (v and v[0] == "ref" and v[1] == ("O", "a2", ("*", "*"))):
                return False, "sort key is %r, not the address of the lock" % (v,)
            if [e for e in p.events if e["k"] not in ("CALL",)]:
                pass
    return True, None


def rule_L2(ctx, R):
    res = RuleResult("L2", "sorting collections block in one address order: the cached list is get_ptrs(data) sorted ascending by lock "
                           "address (on every construction path), and both blocking ops pass exactly that list to ordered_write/read")
    F = ctx.F
    # (a) functions that sort a lock list
    sorters = [f for f in analysed_fns(ctx) if any(
        "::sort" in (t["callee"].get("def") or "") and "slice" in (t["callee"].get("def") or "")
        for b in f["mir"]["blocks"] for t in [b["term"]] if t["k"] == "call" and t["callee"]["k"] == "fndef")]
    sorted_lists = {}   # fn path -> description
    for f in sorters:
        paths, err, I = ctx.paths(f)
        if err:
            res.undecided(f["path"], "analysis", err, *_floc(f))
            continue
        bad = None
        for p in paths:
            if p.kind != "ret":
                continue
            sorts = [e for e in _calls(p) if "::sort" in e["def"]]
            if len(sorts) != 1 or sorts[0]["def"].split("::")[-1] not in SORT_NAMES:
                bad = "uses %s (only an ascending sort by key is accepted)" % [e["def"] for e in sorts]
                break
            s = sorts[0]
            ok, why = _sort_key_is_address(ctx, s["args"][1])
            if not ok:
                bad = why
                break
            lst = vid(s["argv"][0])
            # the sorted vector is the one get_ptrs filled, before the sort
            filled = [e for e in p.events[:s["i"]] if (e["k"] == "GETPTRS" and vid(e["intov"]) == lst) or
                      (e["k"] == "PRIM" and e.get("role") == "get_locks_unsorted" and "op:" + e["result"] == lst)]
            late = [e for e in p.events[s["i"]:] if e["k"] in ("GETPTRS",) or (e["k"] == "CALL" and ("push" in e["def"] or "extend" in e["def"]))]
            if len(filled) != 1:
                bad = "sorted vector is not the result of exactly one full get_ptrs (%d)" % len(filled)
            elif late:
                bad = "list modified after sorting (%s)" % late[0].get("def", late[0]["k"])
            else:
                src = filled[0]
                data = src["recv"] if src["k"] == "GETPTRS" else vid(src["argv"][0])
                # where does the sorted list go?
                v = p.value
                sorted_lists.setdefault(f["path"], set()).add((lst, data, repr(v)[:0]))
                # it must be returned or stored in the lock-list field of the constructed collection, with the same data
                def find(vv):
                    if vv[0] == "agg" and vv[1] == "adt" and vv[2] in SORTING:
                        return vv
                    if vv[0] == "agg":
                        for x in vv[4]:
                            r = find(x)
                            if r:
                                return r
                    return None
                coll = find(v) if v else None
                if coll:
                    lf = lock_list_field(ctx, coll[2])
                    if vid(coll[4][lf]) != lst:
                        bad = "collection's lock list field is not the sorted vector"
                    dv = coll[4][1 - lf]
                    dname = vid(dv)
                    if not (data.startswith(dname.replace("ref:", "").replace("op:", "")) or dname.endswith(data)):
                        bad = "lock list was enumerated from %s but the collection stores data %s" % (data, dname)
                elif vid(v) != lst:
                    bad = "sorted vector is neither returned nor stored in a sorting collection"
            if bad:
                break
        if bad:
            res.bad(Violation("L2", f["path"], "sort", bad, *_floc(f)))
        else:
            res.ok("sorter " + f["path"])
    # (b) every construction site of a sorting collection takes its list from a sorter
    sorter_paths = set(f["path"] for f in sorters)
    for f in analysed_fns(ctx):
        sites = [s for b in f["mir"]["blocks"] for s in b["stmts"] if s["k"] == "assign" and s["rv"]["k"] == "aggregate"
                 and s["rv"].get("agg") == "adt" and s["rv"]["path"] in SORTING]
        if not sites:
            continue
        paths, err, I = ctx.paths(f)
        if err:
            res.undecided(f["path"], "analysis", err, *_floc(f))
            continue
        bad = None
        for p in paths:
            if p.kind != "ret" or not p.value:
                continue
            colls = []
            def visit(vv):
                if vv[0] == "agg":
                    if vv[1] == "adt" and vv[2] in SORTING:
                        colls.append(vv)
                    for x in vv[4]:
                        visit(x)
            visit(p.value)
            for c in colls:
                lf = lock_list_field(ctx, c[2])
                lv = c[4][lf]
                dv = c[4][1 - lf]
                if f["path"] in sorter_paths:
                    continue   # decided in (a)
                # list must be the result of the sorter primitive get_locks applied to the stored data
                pe = [e for e in p.ev("PRIM") if "op:" + e["result"] == vid(lv)]
                if not pe or pe[0].get("role") != "get_locks":
                    bad = "lock list of the constructed %s does not come from the sorting helper" % c[2]
                elif vid(pe[0]["argv"][0]) != vid(dv):
                    bad = "lock list enumerated from %s but data field is %s" % (vid(pe[0]["argv"][0]), vid(dv))
        if bad:
            res.bad(Violation("L2", f["path"], "construct", bad, *_floc(f)))
        else:
            res.ok("constructor " + f["path"])
    # (c) get_locks must itself be a sorter (it is used as a primitive above)
    gl = ctx.A.by_role.get("get_locks")
    if gl is None or gl not in sorter_paths:
        res.bad(Violation("L2", gl or "<get_locks>", "sort", "no helper returns the lock list of a lockable sorted by address "
                          "(the sorting helper no longer sorts, or is gone)"))
    res.need(6, "sorters and sorting-collection constructors")
    return res


# ---------------------------------------------------------------------------------------------
OWNED = "lockable::OwnedLockable"
DUP_ROLES = ("dup_sorted", "dup_set")


def _ty_same(a, b):
    """structural equality of two type descriptions, regions ignored"""
    if a.get("k") != b.get("k"):
        return False
    k = a["k"]
    if k == "param":
        return a.get("name") == b.get("name")
    if k in ("ref", "ptr"):
        return bool(a.get("mut")) == bool(b.get("mut")) and _ty_same(a["ty"], b["ty"])
    if k in ("adt", "alias"):
        xa = [x for x in a.get("args", []) if x.get("k") not in ("region",)]
        xb = [x for x in b.get("args", []) if x.get("k") not in ("region",)]
        return a.get("path", a.get("name")) == b.get("path", b.get("name")) and len(xa) == len(xb) and \
            all(_ty_same(x, y) if x.get("k") != "const" else x.get("s") == y.get("s") for x, y in zip(xa, xb))
    if k == "tuple":
        return len(a["elems"]) == len(b["elems"]) and all(_ty_same(x, y) for x, y in zip(a["elems"], b["elems"]))
    if k in ("array", "slice"):
        return _ty_same(a["ty"], b["ty"])
    return a.get("s") == b.get("s")


def _owned_given(x, owned, depth=0):
    """is `x: OwnedLockable` implied by the function's own `OwnedLockable` predicates and the impls for the std containers
    (`Vec<L>`, `Box<[L]>`, `[L; N]`, tuples, `&mut L`: owned when their elements are)?"""
    if depth > 4:
        return False
    if any(_ty_same(x, o) for o in owned):
        return True
    k = x.get("k")
    if k == "ref":
        return bool(x.get("mut")) and _owned_given(x["ty"], owned, depth + 1)
    if k in ("array", "slice"):
        return _owned_given(x["ty"], owned, depth + 1)
    if k == "tuple":
        return bool(x["elems"]) and all(_owned_given(e, owned, depth + 1) for e in x["elems"])
    if k == "adt" and not x.get("local") and x.get("path") in ("std::vec::Vec", "std::boxed::Box"):
        xs = [a for a in x.get("args", []) if a.get("k") not in ("region", "const") and not
              (a.get("k") == "adt" and a.get("path", "").endswith("Global"))]
        return bool(xs) and _owned_given(xs[0], owned, depth + 1)
    return False


def _has_owned_bound(f, adt=None):
    """does `f` require its lockable to be OwnedLockable?  The bound counts only when it is on the type the constructed
    collection actually stores: `X: OwnedLockable` for `Coll<X>`; for the sorting and retrying collections also
    `Y: OwnedLockable` for `Coll<&Y>` (every collection over `&Y` reaches the same duplicate-free locks in one order) - but
    not for the owned collection, which locks in declaration order and hides its members from enclosing collections"""
    owned = [p["self"] for p in f.get("predicates", []) if p["k"] == "trait" and p["trait"] == OWNED]
    if not owned:
        return False
    colls = [x for x in ty_walk(f["output"]) if x["k"] == "adt" and x["path"] in COLLS] if f.get("output") else []
    if not colls:
        return True
    for c in colls:
        xs = [a for a in c.get("args", []) if a.get("k") not in ("region", "const")]
        if not xs:
            continue
        x = xs[-1]
        if _owned_given(x, owned):
            continue
        if c["path"] != "collection::OwnedLockCollection" and x["k"] == "ref" and not x.get("mut") and any(_ty_same(x["ty"], o) for o in owned):
            continue
        return False
    return True


def _agg_sites(ctx, adts):
    out = []
    for f in ctx.F.fns:
        m = f.get("mir")
        if not m:
            continue
        for b in m["blocks"]:
            for s in b["stmts"]:
                if s["k"] == "assign" and s["rv"]["k"] == "aggregate" and s["rv"].get("agg") == "adt" and s["rv"]["path"] in adts:
                    out.append((f, s["rv"]["path"], s.get("line")))
    return out


def checked_constructor(ctx, f):
    """N2 on one function: Some(collection) only on the no-duplicates edge of a duplicate check over the collection's
    own complete lock list.  Returns (ok, why)."""
    paths, err, I = ctx.paths(f)
    if err:
        return False, err
    nsome = nnone = 0
    for p in paths:
        if p.kind != "ret" or not p.value:
            continue
        v = p.value
        colls = []
        def visit(vv):
            if vv[0] == "agg":
                if vv[1] == "adt" and vv[2] in COLLS:
                    colls.append(vv)
                for x in vv[4]:
                    visit(x)
        visit(v)
        checks = [e for e in p.ev("PRIM") if e.get("role") in DUP_ROLES]
        if colls:
            nsome += 1
            if len(checks) != 1:
                return False, "a collection is returned after %d duplicate checks" % len(checks)
            c = checks[0]
            if c.get("outcome") is not False:
                return False, "a collection is returned although the duplicate check did not answer `no duplicates` (%r)" % c.get("outcome")
            coll = colls[0]
            arg = c["argv"][0]
            if coll[2] in SORTING:
                lf = lock_list_field(ctx, coll[2])
                if c.get("role") != DUP_ROLES[0]:
                    return False, "sorting collection checked with the wrong helper"
                if vid(arg) != vid(coll[4][lf]) and vid(arg) != "ref:" + vid(coll[4][lf])[3:]:
                    # the check may look at the list through the constructed collection (`this.locks()`)
                    return False, "duplicate check looks at %s, not at the collection's own sorted lock list %s" % (vid(arg), vid(coll[4][lf]))
            else:
                if c.get("role") != DUP_ROLES[1]:
                    return False, "adjacent-pair check used on an unsorted collection"
                if vid(arg) != vid(coll[4][0]) and vid(arg) != "ref:" + vid(coll[4][0])[3:]:
                    return False, "duplicate check looks at %s, not at the collection's data %s" % (vid(arg), vid(coll[4][0]))
        else:
            nnone += 1
            if len(checks) == 1 and checks[0].get("outcome") is False:
                return False, "None returned although there were no duplicates"
    if nsome == 0 or nnone == 0:
        return False, "constructor never %s" % ("accepts" if nsome == 0 else "rejects")
    return True, None


def rule_N1N2(ctx, R):
    res = RuleResult("N1", "who may construct a collection: only functions that are unsafe, or require OwnedLockable for the data, or "
                           "return it solely on the no-duplicates edge of a check over the collection's own complete lock list (N2)")
    F = ctx.F
    cg = cg_of(ctx)
    ctor_fns = {}
    for f, adt, line in _agg_sites(ctx, COLLS):
        ctor_fns[f["id"]] = f
    work = list(ctor_fns.values())
    seen = set()
    while work:
        f = work.pop()
        if f["id"] in seen:
            continue
        seen.add(f["id"])
        top = F.top_fn(f)
        if _has_owned_bound(top):
            res.ok("%s: requires OwnedLockable" % top["path"])
            continue
        if top.get("unsafe"):
            res.ok("%s: unsafe constructor (callers checked)" % top["path"])
            callers = [F.fn_by_id[fid] for fid, ss in cg.succ.items() if top["id"] in ss]
            work += callers
            continue
        if (top.get("trait_item") or "").startswith("std::clone::Clone") or (top.get("trait_item") or "").startswith("std::default::Default"):
            pass
        ok, why = checked_constructor(ctx, top)
        if ok:
            res.ok("%s: checked constructor" % top["path"])
        else:
            res.bad(Violation("N1", top["path"], "constructs-collection", "safe function builds a lock collection without an "
                              "OwnedLockable bound and without a valid duplicate check: %s" % why, *_floc(top)))
    res.need(12, "functions constructing collections")
    return res


def rule_N3(ctx, R):
    res = RuleResult("N3", "the duplicate checks compare thin addresses of all elements: adjacent pairs over the whole slice "
                           "(windows(2), addr_eq) / every element inserted into the address set")
    F = ctx.F
    # ordered_contains_duplicates
    try:
        f = F.fn(ctx.A.by_role["dup_sorted"])
        paths, err, I = ctx.paths(f)
        if err:
            res.undecided(f["path"], "analysis", err, *_floc(f))
        else:
            bad = None
            seen_any = False
            for p in paths:
                for e in _calls(p):
                    n = e["def"].split("::")[-1]
                    if n not in ("is_empty", "windows", "any"):
                        bad = "uses `%s` (only is_empty/windows/any are accepted)" % e["def"]
                    if n == "windows":
                        if vid(e["argv"][0]) != "op:a1" or e["argv"][1] != ("const", 2):
                            bad = "windows over %s with size %r (must be the whole slice, size 2)" % (vid(e["argv"][0]), e["argv"][1])
                    if n == "any":
                        seen_any = True
                        cl = e["args"][1]
                        cfn = F.fn_by_id.get(cl[2]) if cl[0] == "agg" else None
                        if not cfn:
                            bad = "predicate is not a closure literal"
                        else:
                            cp, cerr, _ = ctx.paths(cfn)
                            for q in cp or []:
                                if q.kind != "ret":
                                    continue
                                cmps = [c for c in _calls(q) if c["def"].split("::")[-1] in ("addr_eq", "eq", "ne")]
                                idx = []
                                if len(cmps) != 1 or cmps[0]["def"] != "std::ptr::addr_eq":
                                    bad = "adjacent elements are compared with %s (fat-pointer equality also compares vtables)" % (
                                        [c["def"] for c in cmps] or "nothing")
                                elif sorted(vid(a) for a in cmps[0]["argv"]) != ["op:a2.*.[0]", "op:a2.*.[1]"]:
                                    bad = "compared elements are %s, not window[0] and window[1]" % sorted(vid(a) for a in cmps[0]["argv"])
                                elif not (q.value and q.value[0] == "op" and q.value[1] == cmps[0]["result"]):
                                    bad = "predicate does not return the address comparison"
                        if p.kind == "ret" and not (p.value and p.value[0] == "op" and p.value[1] == e["result"]):
                            bad = "result of `any` is not returned"
            if not seen_any:
                bad = bad or "no pairwise comparison found"
            if bad:
                res.bad(Violation("N3", f["path"], "adjacent-compare", bad, *_floc(f)))
            else:
                res.ok(f["path"])
    except KeyError as e:
        res.undecided("<adjacent-pair duplicate check>", "anchor", "no such helper found: " + str(e))
    # contains_duplicates (hash set of thin addresses)
    try:
        f = F.fn(ctx.A.by_role["dup_set"])
        paths, err, I = ctx.paths(f)
        if err:
            res.undecided(f["path"], "analysis", err, *_floc(f))
        else:
            bad = None
            okc = ("new", "into_iter", "map", "len", "with_capacity", "next", "insert", "all", "any")
            saw_true = saw_false = False
            for p in paths:
                for e in _calls(p):
                    n = e["def"].split("::")[-1]
                    if n not in okc:
                        bad = "uses `%s`" % e["def"]
                gp = p.ev("GETPTRS")
                if p.kind == "ret" and (len(gp) != 1 or gp[0]["recv"] not in ("a1", "a1.*")):
                    bad = "lock list is not get_ptrs of the whole argument"
                maps = [e for e in _calls(p) if e["def"].split("::")[-1] == "map"]
                for mcall in maps:
                    cl = mcall["args"][1]
                    cfn = F.fn_by_id.get(cl[2]) if cl[0] == "agg" else None
                    cp, cerr, _ = ctx.paths(cfn) if cfn else (None, "no closure", None)
                    for q in cp or []:
                        if q.kind == "ret" and not (q.value and q.value[0] == "ref" and q.value[1] == ("O", "a2", ("*",))):
                            bad = "hashed key is %r, not the thin address of the lock" % (q.value,)
                ins = [e for e in _calls(p) if e["def"].split("::")[-1] == "insert"]
                alls = [e for e in _calls(p) if e["def"].split("::")[-1] == "all"]
                if alls and p.kind == "ret":
                    # `!iter.all(|x| set.insert(x))`: the closure returns insert's verdict, the function its negation
                    a = alls[0]
                    cl = a["args"][1]
                    cfn = F.fn_by_id.get(cl[2]) if cl[0] == "agg" else None
                    cp, cerr, _ = ctx.paths(cfn) if cfn else (None, "no closure", None)
                    okc2 = bool(cp)
                    for q in cp or []:
                        if q.kind == "ret":
                            qi = [c for c in _calls(q) if c["def"].split("::")[-1] == "insert"]
                            if len(qi) != 1 or vid(qi[0]["argv"][1]) != "op:a2" or not (q.value and q.value[0] == "op" and q.value[1] == qi[0]["result"]):
                                okc2 = False
                    v = p.value
                    if not okc2:
                        bad = "`all` predicate is not `|x| set.insert(x)`"
                    elif not (v and v[0] == "op" and v[2] and v[2][0] == "not" and v[2][1][1] == a["result"]):
                        bad = "result is not the negation of `all(insert)`"
                    else:
                        saw_true = saw_false = True
                    continue
                if p.kind == "ret":
                    if p.value == ("const", True):
                        saw_true = True
                        if not ins or p.facts.get(ins[-1]["result"]) is not False:
                            bad = "returns true although the last insert did not report an existing element"
                    elif p.value == ("const", False):
                        saw_false = True
                        if any(p.facts.get(i["result"]) is False for i in ins):
                            bad = "returns false although an insert reported an existing element"
            if not (saw_true and saw_false):
                bad = bad or "check cannot answer both ways"
            if bad:
                res.bad(Violation("N3", f["path"], "address-set", bad, *_floc(f)))
            else:
                res.ok(f["path"])
    except KeyError as e:
        res.undecided("<address-set duplicate check>", "anchor", "no such helper found: " + str(e))
    res.need(2, "duplicate checks")
    return res


def rule_N4(ctx, R):
    res = RuleResult("N4", "OwnedLockable impl table: never for shared references or borrowing collections; every lockable type "
                           "parameter of a generic impl is itself bounded by OwnedLockable")
    for i in ctx.F.impls_of(OWNED):
        st = i["self_ty"]
        bad = None
        if st["k"] == "ref" and not st["mut"]:
            bad = "implemented for a shared reference %s" % st["s"]
        if st["k"] == "adt" and st["path"] in ctx.F.adts:
            a = ctx.F.adts[st["path"]]
            for v in a["variants"]:
                for fld in v["fields"]:
                    for x in ty_walk(fld["ty"]):
                        if x["k"] == "ref" and not x["mut"] and any(y["k"] == "param" for y in ty_walk(x["ty"])):
                            bad = "implemented for %s, which holds shared references to locks (field %s)" % (st["s"], fld["name"])
        if not bad:
            params = [g["name"] for g in i["generics"] if g["kind"] == "type"]
            for pn in params:
                bounds = [p["trait"] for p in i["predicates"] if p["k"] == "trait" and p["self"]["k"] == "param" and p["self"]["name"] == pn]
                lockish = [b for b in bounds if b.startswith("lockable::")]
                # parameters in data position of leaf locks have no lockable bound at all
                is_member = lockish or st["k"] in ("tuple", "array", "ref") or (st["k"] == "adt" and not st.get("local"))
                if is_member and OWNED not in bounds:
                    bad = "type parameter %s of `impl OwnedLockable for %s` is not bounded by OwnedLockable (bounds: %s)" % (pn, st["s"], bounds)
        if bad:
            res.bad(Violation("N4", "impl OwnedLockable for " + st["s"], "impl", bad, i["span"]["file"], i["span"]["line"]))
        else:
            res.ok("OwnedLockable for " + st["s"])
    res.need(17, "OwnedLockable impls")
    return res


def rule_O2(ctx, R):
    res = RuleResult("O2", "the order is frozen: lock-list and data fields of sorting collections are written only by constructors, "
                           "Drop and by-value consumers; sorting collections give out no `&mut` to their data")
    F = ctx.F
    for f in analysed_fns(ctx):
        m = f["mir"]
        for b in m["blocks"]:
            for s in b["stmts"]:
                if s["k"] != "assign":
                    continue
                targets = [s["dst"]]
                if s["rv"]["k"] in ("ref", "rawptr") and (s["rv"].get("mut") or "Mut" in str(s["rv"].get("kind"))):
                    targets.append(s["rv"]["place"])
                for pl in targets:
                    if not any(isinstance(x, int) for x in pl["p"]):
                        continue
                    lt = m["locals"][pl["l"]]["ty"]
                    base = lt["ty"] if lt["k"] in ("ref", "ptr") else lt
                    if base["k"] == "adt" and base["path"] in SORTING and pl["l"] != 0:
                        top = F.top_fn(f)

                        def allowed(g):
                            bv = g.get("inputs") and g["inputs"][0]["k"] == "adt" and g["inputs"][0]["path"] in SORTING
                            return bool(bv) or (g.get("trait_item") or "") == "std::ops::Drop::drop"
                        ok_ = allowed(top)
                        if not ok_ and not top.get("reachable"):
                            # a crate-private helper: judged by the entry functions that (transitively) call it
                            cg = cg_of(ctx)
                            seen, work, entries = set(), [top["id"]], []
                            while work:
                                cur = work.pop()
                                if cur in seen:
                                    continue
                                seen.add(cur)
                                for fid, ss in cg.succ.items():
                                    if cur in ss:
                                        g = F.top_fn(F.fn_by_id[fid])
                                        if g.get("reachable") or allowed(g):
                                            entries.append(g)
                                        else:
                                            work.append(g["id"])
                            ok_ = bool(entries) and all(allowed(g) for g in entries)
                        if ok_:
                            res.ok("%s mutates its own fields (consumer/Drop)" % top["path"])
                        else:
                            res.bad(Violation("O2", top["path"], "field-write", "field of a sorting collection is written or "
                                              "mutably borrowed after construction", f["span"]["file"], s.get("line")))
    # mutable access to the heap cell that holds the lockable of a sorting collection (raw-pointer route)
    for f in analysed_fns(ctx):
        paths, err, I = ctx.paths(f)
        if err:
            continue
        muts = [e for p in paths for e in p.events if e["k"] == "COLL_DATA_MUT" and e.get("adt") in SORTING]
        if not muts:
            continue
        top = f
        by_value_self = top.get("inputs") and top["inputs"][0]["k"] == "adt" and top["inputs"][0]["path"] in SORTING
        is_drop = (top.get("trait_item") or "") == "std::ops::Drop::drop"
        if by_value_self or is_drop:
            res.ok("%s takes the data out (consumer/Drop)" % top["path"])
        else:
            res.bad(Violation("O2", top["path"], "data-mutated", "the lockable inside a sorting collection is mutated after construction "
                              "(through its heap cell): the cached, sorted lock list no longer matches the data - new members are "
                              "never locked but still handed out by guard()/data_mut()", muts[0].get("file"), muts[0].get("line")))
    for f in F.fns:
        if "inputs" not in f or f.get("unsafe") or not f.get("reachable"):
            continue
        imp = F.impl_of_fn(f)
        if not imp:
            continue
        st = imp["self_ty"]
        tgt = st["ty"] if st["k"] == "ref" else st
        if tgt["k"] != "adt" or tgt["path"] not in SORTING:
            continue
        lp = [a["name"] for a in tgt["args"] if a["k"] == "param"]
        if any(x["k"] == "ref" and x["mut"] and any(y["k"] == "param" and y["name"] in lp for y in ty_walk(x["ty"])) for x in ty_walk(f["output"])):
            res.bad(Violation("O2", f["path"], "mutable-access", "sorting collection hands out %s: locks can be swapped under "
                              "the cached order" % f["output"]["s"], *_floc(f)))
        else:
            res.ok(f["path"])
    res.need(40, "methods and field writes of sorting collections")
    return res


def rule_L4(ctx, R):
    res = RuleResult("L4", "the owned collection is one indivisible unit: get_ptrs pushes exactly itself; both blocking ops list "
                           "its members by the same fixed enumeration")
    P = "collection::OwnedLockCollection"
    for imp in ctx.F.impls_of("lockable::Lockable"):
        if imp["self_ty"]["k"] == "adt" and imp["self_ty"]["path"] == P:
            it = next(x for x in imp["items"] if x["name"] == "get_ptrs")
            f = ctx.F.fn_by_id[it["id"]]
            paths, err, I = ctx.paths(f)
            ok = not err and all(
                [vid(e["argv"][1]) for e in _calls(p, "Vec::<T, A>::push")] == ["op:a1"] and not p.ev("GETPTRS")
                for p in paths if p.kind == "ret")
            if ok:
                res.ok("get_ptrs pushes self")
            else:
                res.bad(Violation("L4", f["path"], "unit", "OwnedLockCollection::get_ptrs does not push exactly itself: its members "
                                  "would be ordered individually by an enclosing sorting collection although they are also locked "
                                  "in listing order", *_floc(f)))
    # (that both blocking ops walk the members in one order is decided on the data model: rules_sem.rule_E2 `one-order`)
    res.need(1, "owned-collection facts")
    return res


def rule_N5(ctx, R):
    res = RuleResult("N5", "the no-duplicates fact is not invalidated after construction: a collection that can be built from borrowed "
                           "locks (try_new / new_unchecked) hands out `&mut` access to its data only under an OwnedLockable bound")
    F = ctx.F
    for f in F.fns:
        if "inputs" not in f or f.get("unsafe") or not f.get("reachable"):
            continue
        imp = F.impl_of_fn(f)
        if not imp:
            continue
        st = imp["self_ty"]
        tgt = st["ty"] if st["k"] == "ref" else st
        if tgt["k"] != "adt" or tgt["path"] not in COLLS or tgt["path"] == "collection::OwnedLockCollection":
            continue
        lp = [a["name"] for a in tgt["args"] if a["k"] == "param"]
        if not lp:
            continue
        out = f["output"]
        gives_mut = False
        for x in ty_walk(out):
            if x["k"] == "ref" and x["mut"] and any(y["k"] == "param" and y["name"] in lp for y in ty_walk(x["ty"])):
                gives_mut = True
        # `&'a mut L: IntoIterator` iterators and AsMut<T> targets hand out &mut into L as well
        takes_mut_self = f["inputs"] and f["inputs"][0]["k"] == "ref" and f["inputs"][0]["mut"] and \
            f["inputs"][0]["ty"]["k"] == "adt" and f["inputs"][0]["ty"]["path"] == tgt["path"]
        if takes_mut_self and (any(x["k"] == "alias" and x.get("name") in ("IntoIter", "Item") for x in ty_walk(out))
                               or (out["k"] == "ref" and out["mut"])):
            gives_mut = True
        if not gives_mut:
            continue
        owned = any(p["k"] == "trait" and p["trait"] == OWNED and p["self"]["k"] == "param" and p["self"]["name"] in lp
                    for p in f.get("predicates", []))
        if owned:
            res.ok(f["path"] + " (OwnedLockable)")
        else:
            res.bad(Violation("N5", f["path"], "mutable-data-access", "%s returns %s for any L: a collection checked by try_new can "
                              "afterwards be given the same lock twice (`*c.child_mut() = (&a, &a)`), and locking it makes a single "
                              "thread wait on itself forever" % (f["path"], out["s"]), f["span"]["file"], f["span"]["line"]))
    res.need(4, "mutable accessors of borrow-capable collections")
    return res


def rule_M5(ctx, R):
    res = RuleResult("M5", "an acquiring HL op of a leaf lock never unwinds after its raw acquisition has returned: callers treat a "
                           "panicking raw_write/raw_read/raw_try_* as `not acquired`, so a panic raised while already holding the raw "
                           "lock leaks it")
    leaves = leaf_locks(ctx)
    for adt, name, f in rawlock_impl_fns(ctx, leaves):
        if name not in ("raw_write", "raw_try_write", "raw_read", "raw_try_read"):
            continue
        paths, err, I = ctx.paths(f)
        if err:
            res.undecided(f["path"], "analysis", err, *_floc(f))
            continue
        bad = None
        for p in paths:
            if p.kind != "unwind":
                continue
            acq = [e for e in p.events if (e["k"] == "RAW" and RAW_SEM.get(e["op"], ("", ""))[0] in ("ACQ", "TRY"))
                   or e["k"] in ("ACQ", "TRY")]
            for a in acq:
                nxt = p.events[a["i"] + 1] if a["i"] + 1 < len(p.events) else None
                faulted_itself = nxt is not None and nxt["k"] == "UNWIND_AT"
                if faulted_itself:
                    continue
                # the acquisition returned normally; is it released again before the function unwinds?
                rel = [e for e in p.events[a["i"] + 1:] if (e["k"] == "RAW" and RAW_SEM.get(e["op"], ("", ""))[0] == "REL") or e["k"] == "REL"]
                if not rel:
                    what = next((e for e in p.events[a["i"] + 1:] if e["k"] in ("PANIC", "UNWIND_AT", "ASSERT_FAIL")), {})
                    bad = "%s::%s unwinds (%s) after `%s` has already returned: the raw lock stays locked and no guard exists" % (
                        adt, name, what.get("what") or what.get("k"), a.get("op") or a["k"])
        if bad:
            res.bad(Violation("M5", f["path"], name, bad + " (path: %s)" % p.trace()[:300], *_floc(f)))
        else:
            res.ok("%s::%s" % (adt, name))
    res.need(8, "acquiring HL ops of leaf locks")
    return res


def rule_Q6(ctx, R):
    res = RuleResult("Q6", "a killed lock stays killed: the kill flag of Mutex/RwLock is never cleared - the flag's clear operation is "
                           "called only on a Poisonable's own (user-visible) poison flag")
    F = ctx.F
    clr = ctx.A.flag_fn.get("clear")
    if not clr:
        res.undecided("<poison flag clear>", "anchor", "no clear operation found on the flag type")
        res.need(1, "clear call sites")
        return res
    leaves = leaf_locks(ctx)
    for f, t in call_sites(ctx, lambda c: c["def"] == clr):
        top = F.top_fn(f)
        imp = F.impl_of_fn(top)
        st = imp["self_ty"] if imp else None
        base = st["ty"] if st and st["k"] == "ref" else st
        owner = base["path"] if base and base["k"] == "adt" else None
        # which object's flag? the receiver argument's base local type
        a0 = t["args"][0] if t["args"] else None
        if owner in leaves or owner is None or owner != "poisonable::Poisonable":
            res.bad(Violation("Q6", top["path"], "kill-flag-cleared", "%s clears a poison/kill flag outside Poisonable: a lock whose raw "
                              "operation panicked (state unknown, possibly still locked) accepts acquisitions again" % top["path"],
                              f["span"]["file"], t.get("line")))
        else:
            res.ok("clear in " + top["path"])
    res.need(1, "clear call sites")
    return res
