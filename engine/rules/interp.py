"""Path-sensitive typestate / effect analysis over the MIR facts.

An abstract interpreter in the style of ESP property simulation: abstract
states are kept disjunctively (one per distinguishable path), values are
access paths rooted at the analysed function's arguments, constants (drop
flags, enum variants) are propagated, crate-local callees and closures are
analysed in the caller's context (inlining), and the operations the rules talk
about (RawLock ops, Lockable/Sharable "assume" ops, user closure calls, key
and guard drops, poison-flag accesses ...) are *primitive events* with a
typestate effect.  No solver, no concrete execution; the only values ever
computed are literals that appear in the MIR.

The result for one entry function is a list of Path objects (event trace,
exit kind, returned abstract value, final lock typestate); the rule modules
evaluate their obligations on those.
"""
import json
from facts import ty_subst, ty_walk as _walk, _subst

LOOP_LIMIT = 3
DEPTH_LIMIT = 24
PATH_LIMIT = 4000


class Undecided(Exception):
    pass


# ---- abstract values (hashable tuples) -----------------------------------
def Const(v):
    return ("const", v)


UNIT = ("const", "()")
UNINIT = ("uninit",)
MOVED = ("moved",)


def Op(oid, tag=None):
    return ("op", oid, tag)


def Ref(loc):
    return ("ref", loc)


def Agg(kind, name, variant, fields):
    return ("agg", kind, name, variant, tuple(fields))


def is_op(v):
    return v[0] == "op"


def is_agg(v, kind=None, name=None):
    return v[0] == "agg" and (kind is None or v[1] == kind) and (name is None or v[2] == name)


def loc_s(loc):
    if loc[0] == "V":
        return "view:%s[%s..%s]" % (loc[1][2], loc[1][4][0][1], loc[1][4][1][1])
    base = loc[1] if loc[0] == "O" else "L%s_%s" % (loc[1], loc[2])
    projs = loc[2] if loc[0] == "O" else loc[3]
    return base + "".join("." + str(p) for p in projs)


def val_contains(v, pred):
    if pred(v):
        return True
    if v[0] == "agg":
        return any(val_contains(f, pred) for f in v[4])
    return False


def val_ops(v):
    """All opaque ids occurring in a value."""
    out = []
    def rec(x):
        if x[0] == "op":
            out.append(x[1])
        elif x[0] == "agg":
            for f in x[4]:
                rec(f)
        elif x[0] == "ref":
            pass
    rec(v)
    return out


class State:
    __slots__ = ("mem", "locks", "events", "facts", "problems", "counter", "guards", "heap", "faults")

    def __init__(self):
        self.mem = {}      # (fid, local) -> value
        self.locks = {}    # recv string -> 'U' | 'W' | 'R' | 'K'(killed)
        self.events = []   # list of dict
        self.facts = {}    # opaque id -> bool | ('variant', n)
        self.problems = [] # list of dict
        self.counter = [0]  # shared across forks: fresh ids never collide
        self.guards = {}   # opaque guard id -> (recv, mode, 'live'|'dropped')
        self.heap = {}     # abstract object cells: loc string -> value
        self.faults = 0    # number of injected unwinds on this path

    def fork(self):
        s = State()
        s.mem = dict(self.mem)
        s.locks = dict(self.locks)
        s.events = list(self.events)
        s.facts = dict(self.facts)
        s.problems = list(self.problems)
        s.counter = self.counter
        s.guards = dict(self.guards)
        s.heap = dict(self.heap)
        s.faults = self.faults
        return s

    def fresh(self, prefix):
        self.counter[0] += 1
        return "%s#%d" % (prefix, self.counter[0])


class Path:
    def __init__(self, kind, value, st, note=None):
        self.kind = kind          # 'ret' | 'unwind' | 'abort' | 'diverge' | 'cut'
        self.value = value
        self.events = st.events
        self.locks = st.locks
        self.problems = st.problems
        self.guards = st.guards
        self.facts = st.facts
        self.note = note
        self.st = st

    def ev(self, *kinds):
        return [e for e in self.events if e["k"] in kinds]

    def trace(self):
        out = []
        for e in self.events:
            s = e["k"]
            if "recv" in e:
                s += "(%s%s)" % (e["recv"], "," + e["mode"] if e.get("mode") else "")
            elif "what" in e:
                s += "(%s)" % e["what"]
            if e.get("result") is not None:
                s += "=" + str(e["result"])
            out.append(s)
        return " ; ".join(out) + " => " + self.kind


HL_OPS = {
    "raw_write": ("ACQ", "W"), "raw_read": ("ACQ", "R"),
    "raw_try_write": ("TRY", "W"), "raw_try_read": ("TRY", "R"),
    "raw_unlock_write": ("REL", "W"), "raw_unlock_read": ("REL", "R"),
    "poison": ("KILL", None),
}
ASSUME_OPS = {"guard": "W", "data_mut": "W", "read_guard": "R", "data_ref": "R"}
RAW_HL = {"lock": ("ACQ", "W"), "try_lock": ("TRY", "W"), "unlock": ("REL", "W"),
          "lock_exclusive": ("ACQ", "W"), "try_lock_exclusive": ("TRY", "W"), "unlock_exclusive": ("REL", "W"),
          "lock_shared": ("ACQ", "R"), "try_lock_shared": ("TRY", "R"), "unlock_shared": ("REL", "R"),
          # the fair releases of lock_api's RawMutexFair / RawRwLockFair: the same release, with a hand-off policy
          "unlock_fair": ("REL", "W"), "unlock_exclusive_fair": ("REL", "W"), "unlock_shared_fair": ("REL", "R")}
RAW_TRAITS = ("lock_api::RawMutex", "lock_api::RawRwLock", "lock_api::mutex::RawMutex", "lock_api::rwlock::RawRwLock",
              "lock_api::RawMutexFair", "lock_api::RawRwLockFair", "lock_api::mutex::RawMutexFair", "lock_api::rwlock::RawRwLockFair")

# std functions that cannot unwind (no user code, no allocation failure we model).
# One line of reason each.
NOUNWIND = {
    "std::cell::UnsafeCell::<T>::get": "returns a pointer",
    "std::cell::UnsafeCell::<T>::get_mut": "returns a reference",
    "std::cell::UnsafeCell::<T>::into_inner": "moves the value out",
    "std::cell::UnsafeCell::<T>::new": "wraps a value",
    "std::cell::Cell::<T>::get": "copies a Copy value",
    "std::cell::Cell::<T>::set": "replaces a Copy value (usize/bool here)",
    "std::cell::Cell::<T>::replace": "replaces a Copy value",
    "std::cell::Cell::<T>::new": "wraps a value",
    "std::ptr::mut_ptr::<impl *mut T>::as_mut": "null test only",
    "std::ptr::mut_ptr::<impl *mut T>::as_ref": "null test only",
    "std::ptr::const_ptr::<impl *const T>::as_ref": "null test only",
    "std::ptr::const_ptr::<impl *const T>::cast": "pointer cast",
    "std::ptr::const_ptr::<impl *const T>::cast_mut": "pointer cast",
    "std::ptr::mut_ptr::<impl *mut T>::cast_const": "pointer cast",
    "std::option::Option::<T>::unwrap_unchecked": "UB, not a panic, on None",
    "std::mem::forget": "no code runs",
    "std::ops::Deref::deref": "only reached here for Vec/AssertUnwindSafe/local guards (field access)",
    "std::ops::DerefMut::deref_mut": "only reached here for Vec/local guards (field access)",
    "std::thread::panicking": "reads a thread-local counter",
    "std::sync::atomic::Atomic::<bool>::load": "atomic load",
    "std::sync::atomic::Atomic::<bool>::store": "atomic store",
    "std::sync::atomic::Atomic::<bool>::new": "const constructor",
    "std::ptr::addr_eq": "pointer comparison",
    "core::slice::<impl [T]>::is_empty": "length test",
    "std::vec::Vec::<T, A>::is_empty": "length test",
    "core::slice::<impl [T]>::iter": "builds an iterator",
    "std::ops::Try::branch": "moves a Result",
    "core::bool::<impl bool>::then_some": "moves or drops its argument (drop effect is modelled)",
}


class Interp:
    def __init__(self, facts):
        self.F = facts
        self.optype = {}
        self.oploc = {}
        self.primitives = {}      # crate-local fn path -> handler(interp, st, fn, args, call) or None (generic PRIM event)
        self.holdtypes = {}       # adt path -> (lock field index, mode)
        self.dataproj = {}        # adt path -> list of proj tuples that denote "the data this RawLock protects"
        self.inline_hl = False    # inline crate-local RawLock impl methods instead of emitting HL events
        self.inline_assume = False
        self.inline_assume_of = set()   # ADT paths whose guard-family impls are inlined (wrapper-specific rules)
        self.nounwind_extra = set()
        self.npaths = 0
        self.key_is_primitive = True
        self.max_faults = None    # None = any number of unwinds per path; k = at most k injected unwinds
        self.loop_limit = LOOP_LIMIT
        self.state_limit = PATH_LIMIT * 50
        self.lists = {}           # list id -> length (k-bounded list model, see listmodel.py)
        self.const_params = {}    # const generic name -> value (container model: `[T; N]` analysed with N = list length)
        self.key_ops = set()
        self.user_drops_unwind = True   # dropping a value of a type parameter runs a user destructor, which may unwind
        self.acq_limit = None     # cut a path when it is about to issue more than this many blocking acquisitions
        self.root_is_leaf_rawlock_impl = False
        self.root_is_leaf_rawlock_impl_poison = False
        self.frame_fn = {}        # frame id -> function (types of locals)
        self.frame_subst = {}     # frame id -> {(param name, index): type}: generic arguments the inlined callee was called with
        self.subst_table = [{}]   # interned substitutions carried by closure values (closure aggregate variant = index)
        self.cur_fid = None
        self.getptrs_hook = None  # data model: get_ptrs of the abstract root lockable appends the modelled leaves
        self.model_vecs = False   # Vec::new / HashSet::new create modelled containers (semantic container rules)
        self.addrs = {}           # list id -> model address of each element (duplicate / sort rules)
        self.roles = {}           # crate-local helper path -> discovered role (anchors.py)

    # ---- opaque registry ------------------------------------------------
    def mkop(self, loc, ty=None, tag=None):
        oid = loc_s(loc)
        if oid not in self.oploc:
            self.oploc[oid] = loc
        if ty is not None and oid not in self.optype:
            self.optype[oid] = ty
        return Op(oid, tag)

    def fresh_op(self, st, prefix, ty=None, tag=None):
        rid = st.fresh(prefix)
        loc = ("O", rid, ())
        self.oploc[rid] = loc
        if ty is not None:
            self.optype[rid] = ty
        return Op(rid, tag)

    def proj_ty(self, t, p):
        if t is None:
            return None
        k = t["k"]
        if p == "*":
            if k in ("ref", "ptr"):
                return t["ty"]
            if k == "adt" and t["path"].split("::")[-1] in ("Box", "NonNull", "Arc", "Rc") and t.get("args"):
                return t["args"][0]
            return None
        if p == "cell":
            if k == "adt" and t["path"].endswith("UnsafeCell"):
                return t["args"][0]
            return None
        if p == "lazy":
            if k == "adt" and t.get("args"):
                return t["args"][0]
            return None
        if isinstance(p, str) and p.startswith("["):
            if k in ("array", "slice"):
                return t["ty"]
            return None
        if isinstance(p, int):
            if k == "adt":
                a = self.F.adts.get(t["path"])
                if a and len(a["variants"]) == 1 and p < len(a["variants"][0]["fields"]):
                    ft = a["variants"][0]["fields"][p]["ty"]
                    return ty_subst(ft, a["generics"], t.get("args", []))
                return None
            if k == "tuple":
                return t["elems"][p] if p < len(t["elems"]) else None
            if k == "closure":
                return t["upvars"][p] if p < len(t.get("upvars", [])) else None
        return None

    def loc_ty(self, loc):
        if loc[0] == "L":
            f = self.frame_fn.get(loc[1])
            try:
                t = f["mir"]["locals"][loc[2]]["ty"] if f else None
            except (IndexError, KeyError, TypeError):
                t = None
            for p in loc[3]:
                t = self.proj_ty(t, p)
            return t
        if loc[0] != "O":
            return None
        t = self.optype.get(loc[1])
        for p in loc[2]:
            t = self.proj_ty(t, p)
        return t

    # ---- memory -----------------------------------------------------------
    def add_proj(self, loc, p):
        if loc[0] == "V":
            v = loc[1]
            if isinstance(p, str) and p.startswith("[") and p[1:-1].isdigit():
                return ("O", v[2], ("[%d]" % (v[4][0][1] + int(p[1:-1])),))
            raise Undecided("projection %r of a modelled slice" % (p,))
        if loc[0] == "L":
            return ("L", loc[1], loc[2], loc[3] + (p,))
        return ("O", loc[1], loc[2] + (p,))

    def project(self, st, v, p, loc):
        if v[0] == "agg" and v[1] == "slice" and isinstance(p, int):
            return v      # Box<[T]> / Vec<T> internals (Unique, NonNull, RawVec ...) all wrap the pointer to the same elements
        if v[0] == "agg":
            if isinstance(p, int):
                if p < len(v[4]):
                    return v[4][p]
                return UNINIT
            if p == "cell" and len(v[4]) == 1:
                return v[4][0]
            if p == "*" and v[2].endswith("Box") and v[4]:
                return v[4][0]
            return self.fresh_unknown(st, "proj")
        if v[0] == "op":
            base = self.oploc.get(v[1])
            if base is None:
                return self.fresh_unknown(st, "proj")
            nl = self.add_proj(base, p)
            return self.mkop(nl, self.loc_ty(nl))
        if v[0] in ("uninit", "moved"):
            return v
        if v[0] == "ref" and p == "*":
            return self.load(st, v[1])
        return self.fresh_unknown(st, "proj")

    def fresh_unknown(self, st, prefix):
        return self.fresh_op(st, prefix)

    def load(self, st, loc):
        if loc[0] == "V":
            return loc[1]
        h = st.heap.get(loc)
        if h is not None:
            return h
        if loc[0] == "L":
            v = st.mem.get((loc[1], loc[2]), UNINIT)
            cur = ("L", loc[1], loc[2], ())
            for p in loc[3]:
                cur = self.add_proj(cur, p)
                h = st.heap.get(cur)
                v = h if h is not None else self.project(st, v, p, cur)
            return v
        return self.mkop(loc, self.loc_ty(loc))

    def store(self, st, loc, val):
        if loc[0] == "L" and not loc[3]:
            st.mem[(loc[1], loc[2])] = val
            # a whole-local store overrides earlier partial overrides
            for k in [k for k in st.heap if k[0] == "L" and k[1] == loc[1] and k[2] == loc[2]]:
                del st.heap[k]
            return
        if loc[0] == "L":
            base = st.mem.get((loc[1], loc[2]), UNINIT)
            nv = self._update(base, loc[3], val)
            if nv is not None:
                st.mem[(loc[1], loc[2])] = nv
                return
        st.heap[loc] = val

    def _update(self, base, projs, val):
        if not projs:
            return val
        p = projs[0]
        if base[0] == "agg" and isinstance(p, int) and p < len(base[4]):
            inner = self._update(base[4][p], projs[1:], val)
            if inner is None:
                return None
            f = list(base[4])
            f[p] = inner
            return ("agg", base[1], base[2], base[3], tuple(f))
        return None

    def eval_place(self, st, fid, place):
        loc = ("L", fid, place["l"], ())
        for p in place["p"]:
            if p == "*":
                v = self.load(st, loc)
                if v[0] == "ref":
                    loc = v[1]
                elif v[0] == "op":
                    base = self.oploc.get(v[1])
                    if base is None:
                        raise Undecided("deref of unregistered opaque %s" % v[1])
                    loc = self.add_proj(base, "*")
                elif v[0] == "agg" and v[2].endswith("Box"):
                    loc = self.add_proj(loc, "*")
                elif v[0] == "agg" and v[1] == "slice":
                    loc = ("V", v, ())      # a modelled `&[T]`: its pointee is the view itself
                else:
                    raise Undecided("deref of %r" % (v,))
            elif isinstance(p, int):
                loc = self.add_proj(loc, p)
            elif p.startswith("as "):
                continue
            elif p.startswith("[") and self.lists and (loc[0] == "V" or self._view_at(st, loc) is not None) and \
                    (p.startswith("[c-") or ".." in p):
                # slice patterns: `[.., last]` (index from the end) and `[first, rest @ ..]` (sub-slice)
                vw = loc[1] if loc[0] == "V" else self._view_at(st, loc)
                lid, lo, hi = vw[2], vw[4][0][1], vw[4][1][1]
                if p.startswith("[c-"):
                    loc = ("O", lid, ("[%d]" % (hi - int(p[3:-1])),))
                else:
                    a_, b_ = p[1:-1].split("..")
                    nlo = lo + int(a_)
                    nhi = hi - int(b_[1:]) if b_.startswith("-") else lo + int(b_)
                    import listmodel
                    loc = ("V", listmodel.view(lid, nlo, max(nlo, nhi)), ())
            elif p.startswith("[") and loc[0] != "V" and self.lists and self._view_at(st, loc) is not None:
                # indexing a place that holds a modelled list: continue inside the list
                loc = ("V", self._view_at(st, loc), ())
                if p.startswith("[_"):
                    iv = st.mem.get((fid, int(p[2:-1])))
                    if iv is not None and iv[0] == "const" and isinstance(iv[1], int) and not isinstance(iv[1], bool):
                        loc = self.add_proj(loc, "[%d]" % iv[1])
                    else:
                        raise Undecided("index %r of a modelled list" % (iv,))
                elif p.startswith("[c") and p[2:-1].isdigit():
                    loc = self.add_proj(loc, "[%s]" % p[2:-1])
                else:
                    raise Undecided("projection %r of a modelled list" % (p,))
            elif p.startswith("[_"):
                iv = st.mem.get((fid, int(p[2:-1])))
                if iv is not None and iv[0] == "const" and isinstance(iv[1], int) and not isinstance(iv[1], bool):
                    loc = self.add_proj(loc, "[%d]" % iv[1])
                elif iv is not None and iv[0] == "op":
                    loc = self.add_proj(loc, "[%s]" % iv[1])
                else:
                    loc = self.add_proj(loc, "[]")
            elif p.startswith("[c") and p[2:-1].isdigit():
                loc = self.add_proj(loc, "[%s]" % p[2:-1])
            elif p.startswith("["):
                loc = self.add_proj(loc, "[]")
            else:
                loc = self.add_proj(loc, p)
        return loc

    def eval_promoted(self, st, fid, s):
        """value of a promoted constant `<fn path>::promoted[i]`: its little MIR body is evaluated (straight-line code)"""
        f = self.frame_fn.get(fid)
        try:
            idx = int(s.rsplit("[", 1)[1][:-1])
        except ValueError:
            return None
        owner = f
        # the operand may sit in a closure whose promoteds belong to the closure itself; look the path up if it differs
        want = s.rsplit("::promoted[", 1)[0]
        if owner is None or owner.get("path") != want:
            cands = self.F.fn_by_path.get(want) or []
            owner = cands[0] if cands else owner
        proms = (owner or {}).get("promoted") or []
        if idx >= len(proms):
            return None
        body = proms[idx]
        pfn = {"path": want + "::promoted[%d]" % idx, "id": "promoted:%s:%d" % (want, idx), "mir": body, "kind": "Promoted",
               "span": (owner or {}).get("span", {"file": None, "line": None})}
        try:
            outs = self.run_fn(pfn, [], st, 1, self.frame_subst.get(fid))
        except Undecided:
            return None
        rets = [o for o in outs if o[0] == "ret"]
        if len(rets) != 1 or rets[0][2] is not st:
            return None
        return rets[0][1]

    def _view_at(self, st, loc):
        v = st.heap.get(loc)
        if v is None and loc[0] == "L":
            try:
                v = self.load(st, loc)
            except Undecided:
                v = None
        if v is not None and v[0] == "agg" and v[1] == "slice" and v[2] in self.lists:
            return v
        return None

    def eval_operand(self, st, fid, op):
        k = op["k"]
        if k == "copy":
            return self.load(st, self.eval_place(st, fid, op["place"]))
        if k == "move":
            loc = self.eval_place(st, fid, op["place"])
            v = self.load(st, loc)
            if loc[0] == "L":
                self.store(st, loc, MOVED)
            return v
        if k == "const":
            s = op["s"]
            t = op["ty"]
            if t["k"] == "prim":
                if s == "true":
                    return Const(True)
                if s == "false":
                    return Const(False)
                body = s.split("_")[0]
                try:
                    return Const(int(body))
                except ValueError:
                    if s in self.const_params:
                        return Const(self.const_params[s])     # a const generic instantiated by the container model
                    # mode flags are followed (`const SHARED: bool`, `raw_acquire::<EXCLUSIVE>`); integer constants stay
                    # symbolic on purpose: a threshold such as `MAX_BACKOFFS` must not hide the branch behind it from a
                    # bounded exploration
                    cs = (self.frame_subst.get(fid) or {}).get(("#const", s))
                    if isinstance(cs, bool):
                        return Const(cs)                       # a const generic argument of the inlined callee
                    nc = self.F.consts.get(s)
                    if isinstance(nc, bool):
                        return Const(nc)                       # a named constant item (evaluated by the driver)
                    return Const(s)
            if t["k"] == "tuple" and not t["elems"]:
                return UNIT
            if "::promoted[" in s and s.endswith("]"):
                v = self.eval_promoted(st, fid, s)
                if v is not None:
                    return v
            if t["k"] == "fndef":
                return Const(("fn", t["def"], t.get("id"), t.get("ctor_adt"), t.get("ctor_variant"), t.get("trait"),
                              json.dumps([a for a in t.get("args", []) if a.get("k") not in ("region", "const")], sort_keys=True)))
            return self.fresh_op(st, "k", t, tag=("constant", s))
        raise Undecided("operand %r" % k)

    def _fat_operand(self, fid, op):
        """is the static type of this operand a wide pointer (to a trait object or slice)?  Comparing those compares the
        metadata too, which the address model does not know."""
        t = None
        if op["k"] in ("copy", "move"):
            f = self.frame_fn.get(fid)
            try:
                t = f["mir"]["locals"][op["place"]["l"]]["ty"] if f and not op["place"]["p"] else None
            except (IndexError, KeyError, TypeError):
                t = None
        elif op["k"] == "const":
            t = op.get("ty")
        if t is None:
            return False
        return t["k"] in ("ptr", "ref") and t["ty"]["k"] in ("dyn", "slice", "str")

    # ---- rvalues ----------------------------------------------------------
    def resolve_bool(self, st, v):
        """Return (base_oid, polarity) for an opaque boolean (follows Not chains), or None."""
        pol = True
        while v[0] == "op" and v[2] and v[2][0] == "not":
            pol = not pol
            v = v[2][1]
        if v[0] == "op":
            return v, pol
        return None

    def eval_rvalue(self, st, fid, rv, fn):
        k = rv["k"]
        if k == "use":
            return self.eval_operand(st, fid, rv["op"])
        if k in ("ref", "rawptr"):
            loc = self.eval_place(st, fid, rv["place"])
            if loc[0] == "V":
                return loc[1]
            if k == "ref" and "*" in rv["place"]["p"] and loc[0] == "O" and loc[2] and loc[2][-1] == "cell":
                self.cell_access(st, loc, rv["mut"], fn, getattr(self, "_cur_line", None))
            return Ref(loc)
        if k == "cast":
            v = self.eval_operand(st, fid, rv["op"])
            # an address narrowed to fewer bits than a pointer has (`addr as u32`) no longer identifies or orders locks
            t = rv.get("ty") or {}
            if t.get("k") == "prim" and t.get("name") in ("u8", "u16", "u32", "i8", "i16", "i32") and getattr(self, "addrs", None) \
                    and any(x in str(rv.get("kind", "")) for x in ("IntToInt", "PointerExpose")):
                import listmodel
                if listmodel.addr_of(self, v) is not None:
                    return self.fresh_op(st, "trunc", t, tag=("truncated-address", v))
            return v
        if k == "binop":
            a = self.eval_operand(st, fid, rv["a"])
            b = self.eval_operand(st, fid, rv["b"])
            op = rv["op"]
            if a[0] == "const" and b[0] == "const" and isinstance(a[1], (int, bool)) and isinstance(b[1], (int, bool)):
                x, y = a[1], b[1]
                base = op.replace("WithOverflow", "").replace("Unchecked", "")
                try:
                    r = {"Eq": lambda: x == y, "Ne": lambda: x != y, "Lt": lambda: x < y, "Le": lambda: x <= y,
                         "Gt": lambda: x > y, "Ge": lambda: x >= y, "Add": lambda: x + y, "Sub": lambda: x - y,
                         "Mul": lambda: x * y, "BitAnd": lambda: x & y, "BitOr": lambda: x | y,
                         "BitXor": lambda: x ^ y}[base]()
                    if op.endswith("WithOverflow"):
                        return Agg("tuple", "", 0, [Const(r), Const(False)])
                    return Const(r)
                except KeyError:
                    pass
            if getattr(self, "addrs", None) and op in ("Eq", "Ne", "Lt", "Le", "Gt", "Ge") and not self._fat_operand(fid, rv["a"]) \
                    and not self._fat_operand(fid, rv["b"]):
                import listmodel
                xa = a[1] if a[0] == "const" and isinstance(a[1], int) else listmodel.addr_of(self, a)
                xb = b[1] if b[0] == "const" and isinstance(b[1], int) else listmodel.addr_of(self, b)
                if xa is not None and xb is not None:
                    return Const({"Eq": xa == xb, "Ne": xa != xb, "Lt": xa < xb, "Le": xa <= xb, "Gt": xa > xb, "Ge": xa >= xb}[op])
            r = self.fresh_op(st, "b", tag=("binop", op, a, b))
            if op.endswith("WithOverflow"):
                return Agg("tuple", "", 0, [r, self.fresh_op(st, "ovf", tag=("overflow",))])
            return r
        if k == "unop":
            a = self.eval_operand(st, fid, rv["a"])
            if rv["op"] == "Not":
                if a[0] == "const" and isinstance(a[1], bool):
                    return Const(not a[1])
                if a[0] == "op":
                    if a[1] in st.facts and isinstance(st.facts[a[1]], bool):
                        return Const(not st.facts[a[1]])
                    return ("op", a[1] + "!", ("not", a))
            if rv["op"] == "PtrMetadata":
                if self.lists:
                    import listmodel
                    vw = listmodel.as_view(self, st, a)
                    if vw is not None:
                        return Const(vw[4][1][1] - vw[4][0][1])
                return self.fresh_op(st, "len", tag=("len", a))
            return self.fresh_op(st, "u", tag=("unop", rv["op"], a))
        if k == "discr":
            v = self.load(st, self.eval_place(st, fid, rv["place"]))
            if v[0] == "agg":
                return Const(v[3])
            if v[0] == "op":
                f = st.facts.get(v[1])
                if isinstance(f, tuple) and f[0] == "variant" and isinstance(f[1], int):
                    return Const(f[1])
                return ("op", v[1] + "#d", ("discr", v))
            return self.fresh_op(st, "d")
        if k == "aggregate":
            ops = [self.eval_operand(st, fid, o) for o in rv["ops"]]
            a = rv["agg"]
            if a == "adt":
                v = Agg("adt", rv["path"], rv["variant"], ops)
                if rv["path"] == "key::ThreadKey":
                    self.emit(st, {"k": "KEY_BUILT"}, fn, self._cur_line)
                ht = self.holdtypes.get(rv["path"])
                if ht is not None:
                    self.on_hold_built(st, v, ht, fn, rv)
                return v
            if a == "tuple":
                return Agg("tuple", "", 0, ops)
            if a == "array":
                return Agg("array", "", 0, ops)
            if a == "closure":
                return Agg("closure", rv["id"], self.intern_subst(self.frame_subst.get(fid) or {}), ops)
            return Agg("other", a, 0, ops)
        if k == "repeat":
            elem = self.eval_operand(st, fid, rv["op"])
            cnt = rv.get("n")
            if self.model_vecs and cnt is not None:
                n = self.const_params.get(str(cnt).strip(), None)
                if n is None:
                    try:
                        n = int(str(cnt).split("_")[0])
                    except ValueError:
                        n = None
                if n is not None and n <= 8:
                    import listmodel
                    return listmodel.make_list(self, st, [elem] * n)
            return Agg("array", "repeat", 0, [elem])
        return self.fresh_op(st, "rv", tag=("rvalue", rv.get("s", k)))

    # ---- events -----------------------------------------------------------
    def resolve1(self, st, v):
        """Value behind a reference to a local (one level), so events can name the object an `&mut local` denotes."""
        if v[0] == "ref" and v[1][0] == "L":
            x = self.load(st, v[1])
            if x[0] not in ("uninit", "moved"):
                return x
        return v

    def emit(self, st, ev, fn=None, line=None):
        if "args" in ev and "argv" not in ev:
            ev["argv"] = [self.resolve1(st, a) for a in ev["args"]]
        if "into" in ev:
            ev["intov"] = self.resolve1(st, ev["into"])
        if fn is not None:
            ev["fn"] = fn["path"]
            ev["file"] = fn["span"]["file"]
        if line is not None:
            ev["line"] = line
        ev["i"] = len(st.events)
        st.events.append(ev)
        return ev

    def problem(self, st, kind, ev, **kw):
        p = {"k": kind, "at": ev.get("i"), "fn": ev.get("fn"), "file": ev.get("file"), "line": ev.get("line"),
             "recv": ev.get("recv"), "mode": ev.get("mode")}
        p.update(kw)
        st.problems.append(p)

    def canon(self, loc):
        """Canonical receiver: strip a trailing 'protected data' projection of a RawLock wrapper."""
        if loc[0] != "O":
            return loc
        changed = True
        while changed:
            changed = False
            projs = loc[2]
            for i in range(len(projs), -1, -1):
                pre = ("O", loc[1], projs[:i])
                t = self.loc_ty(pre)
                if t is None or t["k"] != "adt":
                    continue
                for dp in self.dataproj.get(t["path"], ()):
                    if projs[i:] == dp and dp:
                        loc = pre
                        changed = True
                        break
                if changed:
                    break
        return loc

    def recv_of(self, st, v):
        """Receiver location named by a `&self`-like argument value."""
        if v[0] == "ref":
            loc = v[1]
            if loc[0] == "L":
                # a by-value local holding an opaque object *is* that object
                x = st.mem.get((loc[1], loc[2]))
                if x is not None and x[0] == "op" and x[1] in self.oploc:
                    base = self.oploc[x[1]]
                    for pp in loc[3]:
                        base = self.add_proj(base, pp)
                    return self.canon(base)
            return self.canon(loc)
        if v[0] == "op":
            base = self.oploc.get(v[1])
            if base is not None:
                return self.canon(self.add_proj(base, "*"))
        return None

    def recv_name(self, loc):
        return loc_s(loc) if loc is not None else "?"

    def on_hold_built(self, st, v, ht, fn, rv):
        field, mode = ht
        lockv = v[4][field] if field < len(v[4]) else UNINIT
        recv = self.recv_of(st, lockv)
        ev = self.emit(st, {"k": "ASSUME", "op": "hold", "recv": self.recv_name(recv), "mode": mode,
                            "hold": rv["path"]}, fn, getattr(self, "_cur_line", None))
        self.check_assume(st, ev)

    def check_assume(self, st, ev):
        cur = st.locks.get(ev["recv"], "U")
        need = ev["mode"]
        ok = (cur == need) or (need == "RW" and cur in ("R", "W"))
        if not ok:
            self.problem(st, "ASSUME_NOT_HELD", ev, have=cur)

    def set_bool(self, st, op, value):
        """Record the outcome of an opaque boolean and apply its typestate effect."""
        st.facts[op[1]] = value
        tag = op[2]
        if tag and tag[0] == "try":
            _, recv, mode, evi = tag
            if value:
                if st.locks.get(recv) in ("W", "R"):
                    self.problem(st, "DOUBLE_ACQ", st.events[evi], have=st.locks.get(recv))
                st.locks[recv] = mode
            st.events[evi] = dict(st.events[evi], outcome=value)
        elif tag and tag[0] in ("flag", "panicking", "cmp", "prim", "user"):
            evi = tag[-1]
            if isinstance(evi, int) and evi < len(st.events):
                st.events[evi] = dict(st.events[evi], outcome=value)

    # ---- function execution -------------------------------------------------
    def analyze(self, fn, args=None, st=None):
        """Analyse one entry function; returns list of Path."""
        self.npaths = 0
        st = st or State()
        m = fn["mir"]
        ti_ = fn.get("trait_item") or ""
        self.root_is_leaf_rawlock_impl = ti_.startswith("lockable::RawLock::")
        self.root_is_leaf_rawlock_impl_poison = ti_ == "lockable::RawLock::poison"
        self.key_ops = set()
        for i in range(1, m["arg_count"] + 1):
            ti = m["locals"][i]["ty"]
            if ti["k"] == "param" and self._is_key_param(fn, ti["name"]):
                self.key_ops.add("a%d" % i)      # the caller's key (whatever a private helper calls its type parameter)
        if args is None:
            args = []
            for i in range(1, m["arg_count"] + 1):
                rid = "a%d" % i
                loc = ("O", rid, ())
                self.oploc[rid] = loc
                self.optype[rid] = m["locals"][i]["ty"]
                args.append(Op(rid))
                self.seed_arg(st, loc, m["locals"][i]["ty"])
            # a by-value argument that is a crate-local enum (`TryLockPoisonableError`): what it owns depends on the variant,
            # so the function is analysed once per variant, each with that variant's holds seeded
            starts = [st]
            for i in range(1, m["arg_count"] + 1):
                t = m["locals"][i]["ty"]
                a = self.F.adts.get(t["path"]) if t["k"] == "adt" and t.get("local") else None
                if not a or a["kind"] != "Enum" or not (1 < len(a["variants"]) <= 4):
                    continue
                nxt = []
                for s0 in starts:
                    for k, var in enumerate(a["variants"]):
                        s1 = s0.fork()
                        s1.facts["a%d" % i] = ("variant", k)
                        for j, fld in enumerate(var["fields"]):
                            self.seed_arg(s1, self.add_proj(("O", "a%d" % i, ()), j),
                                          ty_subst(fld["ty"], a["generics"], t.get("args", [])), 1)
                        nxt.append(s1)
                starts = nxt
            if len(starts) > 1:
                outs = []
                for s0 in starts:
                    outs += self.run_fn(fn, list(args), s0, 0)
                return [Path(k, v, s, note) for (k, v, s, note) in outs]
        outs = self.run_fn(fn, args, st, 0)
        return [Path(k, v, s, note) for (k, v, s, note) in outs]

    def seed_arg(self, st, loc, t, depth=0):
        """Locks/guards owned by a by-value argument are held on entry (precondition of its type)."""
        if t is None or depth > 6:
            return
        k = t["k"]
        if k == "adt":
            ht = self.holdtypes.get(t["path"])
            if ht is not None:
                recv = self.canon(self.add_proj(self.add_proj(loc, ht[0]), "*"))
                st.locks[loc_s(recv)] = ht[1]
                return
            a = self.F.adts.get(t["path"])
            if a and len(a["variants"]) == 1:
                for i, f in enumerate(a["variants"][0]["fields"]):
                    self.seed_arg(st, self.add_proj(loc, i), self.proj_ty(t, i), depth + 1)
        elif k == "alias" and t.get("name") in ("Guard", "ReadGuard"):
            st.guards[loc_s(loc)] = (None, "W" if t["name"] == "Guard" else "R", "live")
        elif k == "tuple":
            for i in range(len(t["elems"])):
                self.seed_arg(st, self.add_proj(loc, i), t["elems"][i], depth + 1)
        elif k == "param" and depth > 0:
            # a generic payload of a guard-like struct (LockGuard<Guard>): may own holds
            st.guards[loc_s(loc)] = (None, "?", "live")
        elif k == "ref":
            # a borrowed guard still witnesses that its lock is held
            self.seed_arg(st, self.add_proj(loc, "*"), t["ty"], depth + 1)

    def run_fn(self, fn, args, st, depth, subst=None):
        if depth > DEPTH_LIMIT:
            raise Undecided("inlining depth limit in %s" % fn["path"])
        m = fn.get("mir")
        if m is None:
            raise Undecided("no MIR for %s" % fn["path"])
        fid = st.fresh("f")
        self.frame_fn[fid] = fn
        self.frame_subst[fid] = subst or {}
        if len(args) != m["arg_count"]:
            raise Undecided("arity mismatch calling %s: %d vs %d" % (fn["path"], len(args), m["arg_count"]))
        for i, a in enumerate(args):
            st.mem[(fid, i + 1)] = a
        results = []
        work = [(0, st, {})]
        blocks = m["blocks"]
        while work:
            bb, st, visits = work.pop()
            self.npaths += 1
            if self.npaths > self.state_limit:
                raise Undecided("state explosion in %s" % fn["path"])
            n = visits.get(bb, 0)
            if n >= self.loop_limit:
                results.append(("cut", None, st, "loop at bb%d of %s" % (bb, fn["path"])))
                continue
            visits = dict(visits)
            visits[bb] = n + 1
            b = blocks[bb]
            for s in b["stmts"]:
                if s["k"] == "assign":
                    self._cur_line = s.get("line")
                    v = self.eval_rvalue(st, fid, s["rv"], fn)
                    self.store(st, self.eval_place(st, fid, s["dst"]), v)
                elif s["k"] == "setdiscr":
                    pass
            t = b["term"]
            self._cur_line = t.get("line")
            for (nb, nst) in self.exec_term(fn, fid, t, st, depth, results):
                work.append((nb, nst, visits))
        return results

    def exec_term(self, fn, fid, t, st, depth, results):
        k = t["k"]
        if k == "goto":
            return [(t["target"], st)]
        if k == "return":
            results.append(("ret", st.mem.get((fid, 0), UNIT), st, None))
            return []
        if k == "resume":
            results.append(("unwind", None, st, None))
            return []
        if k == "terminate":
            results.append(("abort", None, st, None))
            return []
        if k == "unreachable":
            results.append(("unreachable", None, st, None))
            return []
        if k == "switch":
            return self.exec_switch(fn, fid, t, st)
        if k == "assert":
            c = self.eval_operand(st, fid, t["cond"])
            out = []
            if c[0] == "const":
                if bool(c[1]) == t["expected"]:
                    return [(t["target"], st)]
                return self.unwind_to(fn, t, st, results)
            if t["msg"] in ("Overflow", "OverflowNeg"):
                # counters here are bounded by slice lengths; arithmetic overflow is out of scope
                return [(t["target"], st)]
            out = [(t["target"], st)]
            if self.can_fault(st):
                s2 = st.fork()
                s2.faults += 1
                self.emit(s2, {"k": "ASSERT_FAIL", "what": t["msg"]}, fn, t.get("line"))
                out += self.unwind_to(fn, t, s2, results)
            return out
        if k == "drop":
            loc = self.eval_place(st, fid, t["place"])
            v = self.load(st, loc)
            if loc[0] == "L":
                self.store(st, loc, MOVED)
            out = []
            for (kind, s2) in self.drop_value(st, v, t["ty"], fn, t.get("line"), depth):
                if kind == "ok":
                    out.append((t["target"], s2))
                else:
                    out += self.unwind_to(fn, t, s2, results)
            return out
        if k == "call":
            return self.exec_call(fn, fid, t, st, depth, results)
        raise Undecided("terminator %s in %s" % (k, fn["path"]))

    def unwind_to(self, fn, t, st, results):
        u = t.get("unwind")
        if isinstance(u, int):
            return [(u, st)]
        if u == "continue":
            results.append(("unwind", None, st, None))
            return []
        if u == "terminate":
            results.append(("abort", None, st, None))
            return []
        # 'unreachable': the compiler proved it cannot unwind
        return []

    def exec_switch(self, fn, fid, t, st):
        v = self.eval_operand(st, fid, t["discr"])
        arms = [(int(a), b) for a, b in t["arms"]]
        if v[0] == "const":
            x = v[1]
            x = int(x) if isinstance(x, (bool, int)) else None
            if x is None:
                raise Undecided("switch on constant %r" % (v,))
            for a, b in arms:
                if a == x:
                    return [(b, st)]
            return [(t["otherwise"], st)]
        if v[0] == "op":
            tag = v[2]
            if tag and tag[0] == "discr":
                inner = tag[1]
                known = st.facts.get(inner[1])
                if isinstance(known, tuple) and known and known[0] == "variant":
                    if known[1] == "other":
                        # an earlier switch established "none of the variants it listed": if this switch lists the same or
                        # fewer, its otherwise arm is the only way on
                        return [(t["otherwise"], st)] if not self.block_is_unreachable(fn, t["otherwise"]) else \
                            [(b, st) for a, b in arms]
                    for a, b in arms:
                        if a == known[1]:
                            return [(b, st)]
                    return [(t["otherwise"], st)]
                out = []
                seen = set()
                for a, b in arms:
                    s2 = st.fork()
                    s2.facts[inner[1]] = ("variant", a)
                    seen.add(a)
                    out.append((b, s2))
                if not self.block_is_unreachable(fn, t["otherwise"]):
                    s2 = st.fork()
                    s2.facts[inner[1]] = ("variant", "other")
                    out.append((t["otherwise"], s2))
                return out
            rb = self.resolve_bool(st, v)
            if rb is not None and t["discr_ty"].get("name") == "bool":
                base, pol = rb
                known = st.facts.get(base[1])
                outs = []
                for val in ([known] if isinstance(known, bool) else [True, False]):
                    s2 = st if isinstance(known, bool) else st.fork()
                    if not isinstance(known, bool):
                        self.set_bool(s2, base, val)
                    x = int(val if pol else (not val))
                    tgt = t["otherwise"]
                    for a, b in arms:
                        if a == x:
                            tgt = b
                    outs.append((tgt, s2))
                return outs
            # unknown integer: every arm is possible
            out = [(b, st.fork()) for a, b in arms]
            if not self.block_is_unreachable(fn, t["otherwise"]):
                out.append((t["otherwise"], st.fork()))
            return out
        raise Undecided("switch on %r in %s" % (v, fn["path"]))

    def block_is_unreachable(self, fn, bb):
        b = fn["mir"]["blocks"][bb]
        return b["term"]["k"] == "unreachable" and not b["stmts"]

    # ---- drops --------------------------------------------------------------
    def drop_value(self, st, v, ty, fn, line, depth):
        """Returns list of ('ok'|'unwind', state)."""
        if v[0] in ("const", "ref", "uninit", "moved"):
            return [("ok", st)]
        if v[0] == "agg":
            kind, name = v[1], v[2]
            if kind == "adt":
                a = self.F.adts.get(name)
                if a is not None:
                    return self.drop_local_adt(st, v, a, ty, fn, line, depth)
            return self.drop_fields(st, list(v[4]), [None] * len(v[4]), fn, line, depth)
        if v[0] == "op":
            t = self.optype.get(v[1]) or ty
            return self.drop_opaque(st, v, t, fn, line, depth)
        return [("ok", st)]

    def drop_fields(self, st, vals, tys, fn, line, depth):
        cur = [("ok", st)]
        for fv, ft in zip(vals, tys):
            nxt = []
            for kind, s in cur:
                if kind != "ok":
                    nxt.append((kind, s))
                    continue
                nxt += self.drop_value(s, fv, ft, fn, line, depth)
            cur = nxt
        return cur

    def run_drop_impl(self, st, v, a, depth):
        """Inline `<a as Drop>::drop(&mut v)`; returns list of (kind, state, value-after)."""
        dfn = self.F.fn(a["drop_fn"])
        tf = st.fresh("t")
        st.mem[(tf, 0)] = v
        outs = []
        self.emit(st, {"k": "DROP_IMPL", "adt": a["path"], "phase": "begin"}, dfn, None)
        for kind, _val, s2, note in self.run_fn(dfn, [Ref(("L", tf, 0, ()))], st, depth + 1):
            if kind in ("ret", "unwind"):
                self.emit(s2, {"k": "DROP_IMPL", "adt": a["path"], "phase": "end"}, dfn, None)
            if kind == "ret":
                outs.append(("ok", s2, s2.mem.get((tf, 0), v)))
            elif kind == "unwind":
                outs.append(("unwind", s2, s2.mem.get((tf, 0), v)))
            elif kind == "cut":
                raise Undecided("loop inside Drop impl %s" % a["drop_fn"])
        return outs

    def drop_local_adt(self, st, v, a, ty, fn, line, depth):
        if a["path"] == "key::ThreadKey" and self.key_is_primitive:
            self.emit(st, {"k": "KEYDROP", "val": "<constructed>"}, fn, line)
            return [("ok", st)]
        res = []
        starts = [("ok", st, v)]
        if a.get("drop_fn"):
            starts = self.run_drop_impl(st, v, a, depth)
        for kind, s, v2 in starts:
            # fields are dropped after the Drop impl, also when it unwound
            fields = list(v2[4]) if v2[0] == "agg" else []
            tys = [None] * len(fields)
            sub = self.drop_fields(s, fields, tys, fn, line, depth)
            for k2, s2 in sub:
                res.append(("unwind" if "unwind" in (kind, k2) else "ok", s2))
        return res

    def _is_key_param(self, fn, name):
        f = fn
        seen = 0
        while f is not None and seen < 4:
            for p in f.get("predicates", []) or []:
                if p.get("k") == "trait" and p.get("self", {}).get("k") == "param" and p["self"].get("name") == name and \
                        (p.get("trait") == "key::Keyable" or str(p.get("trait", "")).startswith("std::ops::Fn")):
                    return True
            f = self.F.fn_by_id.get(f.get("parent")) if f.get("kind") == "Closure" else None
            seen += 1
        return False

    def drop_opaque(self, st, v, t, fn, line, depth):
        oid = v[1]
        if t is None:
            self.emit(st, {"k": "DROPQ", "val": oid, "ty": "?"}, fn, line)
            return [("ok", st)]
        k = t["k"]
        if k == "adt":
            a = self.F.adts.get(t["path"])
            if a is not None:
                if a["path"] == "key::ThreadKey" and self.key_is_primitive:
                    self.emit(st, {"k": "KEYDROP", "val": oid}, fn, line)
                    return [("ok", st)]
                starts = [("ok", st, v)]
                if a.get("drop_fn"):
                    starts = self.run_drop_impl(st, v, a, depth)
                if len(a["variants"]) != 1:
                    for kind, s, _ in starts:
                        self.emit(s, {"k": "DROPQ", "val": oid, "ty": t["s"]}, fn, line)
                    return [(kind, s) for kind, s, _ in starts]
                res = []
                nf = len(a["variants"][0]["fields"])
                for kind, s, v2 in starts:
                    base = self.oploc.get(oid)
                    vals, tys = [], []
                    for i in range(nf):
                        fv = self.project(s, v2, i, None) if base is not None else UNINIT
                        vals.append(fv)
                        tys.append(self.proj_ty(t, i))
                    for k2, s2 in self.drop_fields(s, vals, tys, fn, line, depth):
                        res.append(("unwind" if "unwind" in (kind, k2) else "ok", s2))
                return res
            # foreign ADT with unknown content
            g = st.guards.get(oid)
            if g is not None:
                # the (normalised) result of a guard()/read_guard() call, e.g. `Result<PoisonRef<G>, PoisonError<..>>`, dropped
                # as a whole: the guard inside it goes with it
                recv, mode, status = g
                ev = self.emit(st, {"k": "GDROP", "val": oid, "recv": recv, "mode": mode}, fn, line)
                if status != "live":
                    self.problem(st, "GUARD_DROPPED_TWICE", ev)
                elif recv is not None:
                    cur = st.locks.get(recv, "U")
                    if cur != mode:
                        self.problem(st, "REL_NOT_HELD", ev, have=cur)
                    st.locks[recv] = "U"
                st.guards[oid] = (recv, mode, "dropped")
                return [("ok", st)]
            if any(x["k"] in ("param", "alias") or (x["k"] == "adt" and x.get("local")) for x in _walk(t)):
                self.emit(st, {"k": "DROPQ", "val": oid, "ty": t["s"]}, fn, line)
            return [("ok", st)]
        if k == "param":
            self.emit(st, {"k": "DROPP", "val": oid, "ty": t["name"]}, fn, line)
            g = st.guards.get(oid)
            if g is not None:
                st.guards[oid] = (g[0], g[1], "dropped")
            outs = [("ok", st)]
            # the destructor of a user-chosen type is user code: it may unwind (keys - `impl Keyable`, sealed to ThreadKey and
            # `&mut ThreadKey` - and guard payloads are not user code)
            if self.user_drops_unwind and g is None and not self._is_key_param(fn, t["name"]) and \
                    oid.split(".")[0] not in self.key_ops and self.can_fault(st):
                s2 = st.fork()
                s2.faults += 1
                self.emit(s2, {"k": "UNWIND_AT", "what": "drop of a user value (%s)" % t["name"]}, fn, line)
                outs.append(("unwind", s2))
            return outs
        if k == "alias":
            g = st.guards.get(oid)
            if g is not None:
                recv, mode, status = g
                ev = self.emit(st, {"k": "GDROP", "val": oid, "recv": recv, "mode": mode}, fn, line)
                if status != "live":
                    self.problem(st, "GUARD_DROPPED_TWICE", ev)
                elif recv is not None:
                    cur = st.locks.get(recv, "U")
                    if cur != mode:
                        self.problem(st, "REL_NOT_HELD", ev, have=cur)
                    st.locks[recv] = "U"
                st.guards[oid] = (recv, mode, "dropped")
            else:
                self.emit(st, {"k": "DROPQ", "val": oid, "ty": t["s"]}, fn, line)
            return [("ok", st)]
        if k == "tuple":
            vals = [self.project(st, v, i, None) for i in range(len(t["elems"]))]
            return self.drop_fields(st, vals, t["elems"], fn, line, depth)
        if k == "closure":
            vals = [self.project(st, v, i, None) for i in range(len(t.get("upvars", [])))]
            return self.drop_fields(st, vals, t.get("upvars", []), fn, line, depth)
        return [("ok", st)]

    # ---- calls ----------------------------------------------------------------
    def exec_call(self, fn, fid, t, st, depth, results):
        ce = t["callee"]
        args = [self.eval_operand(st, fid, a) for a in t["args"]]
        dest_ty = None
        if not t["dest"]["p"]:
            dest_ty = fn["mir"]["locals"][t["dest"]["l"]]["ty"]
        may_unwind = t.get("unwind") != "unreachable"
        self.cur_fid = fid
        outs = None
        if ce["k"] == "fnptr" and "op" in ce:
            # a call through a function pointer whose value is a known function item
            try:
                fv = self.eval_operand(st, fid, ce["op"])
            except Undecided:
                fv = None
            if fv is not None and fv[0] == "const" and isinstance(fv[1], tuple) and fv[1] and fv[1][0] == "fn":
                outs = self.call_value(st, fv, args, fn, t.get("line"), depth, dest_ty, may_unwind)
        if outs is None:
            outs = self.call(st, fn, ce, args, t.get("line"), depth, dest_ty, may_unwind)
        res = []
        for kind, val, s2 in outs:
            if kind == "ret":
                if t["target"] is None:
                    continue
                self.store(s2, self.eval_place(s2, fid, t["dest"]), val)
                res.append((t["target"], s2))
            elif kind == "unwind":
                res += self.unwind_to(fn, t, s2, results)
            elif kind == "cut":
                results.append(("cut", None, s2, val))
        return res

    def can_fault(self, st):
        return self.max_faults is None or st.faults < self.max_faults

    def outcomes(self, st, val, may_unwind, what, fn, line):
        out = [("ret", val, st)]
        if may_unwind and self.can_fault(st):
            s2 = st.fork()
            s2.faults += 1
            self.emit(s2, {"k": "UNWIND_AT", "what": what}, fn, line)
            out.append(("unwind", None, s2))
        return out

    def fork_bool(self, st, v):
        """[(bool, state)] for an abstract boolean."""
        if v[0] == "const":
            return [(bool(v[1]), st)]
        rb = self.resolve_bool(st, v)
        if rb is None:
            raise Undecided("boolean %r" % (v,))
        base, pol = rb
        known = st.facts.get(base[1])
        if isinstance(known, bool):
            return [(known if pol else not known, st)]
        out = []
        for val in (True, False):
            s2 = st.fork()
            self.set_bool(s2, base, val)
            out.append((val if pol else not val, s2))
        return out

    def call_value(self, st, fval, cargs, fn, line, depth, dest_ty=None, may_unwind=True):
        """Call an abstract callable value with already-untupled args."""
        inner = fval
        if fval[0] == "ref":
            inner = self.load(st, fval[1])
        if inner[0] == "agg" and inner[1] == "adt" and inner[2].endswith("AssertUnwindSafe"):
            if fval[0] == "ref":
                fval = Ref(self.add_proj(fval[1], 0))
            else:
                fval = inner[4][0]
            inner = inner[4][0]
        if inner[0] == "agg" and inner[1] == "closure":
            cfn = self.F.fn_by_id.get(inner[2])
            if cfn is None or "mir" not in cfn:
                raise Undecided("closure body missing: %s" % inner[2])
            self_ty = cfn["mir"]["locals"][1]["ty"]
            if self_ty["k"] == "ref":
                if fval[0] == "ref":
                    selfv = fval
                else:
                    tf = st.fresh("c")
                    st.mem[(tf, 0)] = inner
                    selfv = Ref(("L", tf, 0, ()))
            else:
                selfv = inner
            outs = []
            csub = self.subst_table[inner[3]] if isinstance(inner[3], int) and inner[3] < len(self.subst_table) else None
            for kind, val, s2, note in self.run_fn(cfn, [selfv] + list(cargs), st, depth + 1, csub):
                if kind in ("ret", "unwind"):
                    outs.append((kind, val, s2))
                elif kind == "cut":
                    outs.append(("cut", note, s2))
            return outs
        if inner[0] == "const" and isinstance(inner[1], tuple) and inner[1] and inner[1][0] == "fn":
            # a function item used as a value (`map_err(Error::Variant)`, `map(Self::new)`, `for_each(drop)`)
            _, d, did, cadt, cvar, tr, targs_s = (inner[1] + (None,) * 7)[:7]
            if cadt is not None:
                return [("ret", Agg("adt", cadt, cvar or 0, list(cargs)), st)]
            targs = json.loads(targs_s) if targs_s else []
            lfn = self.F.fn_by_id.get(did)
            if tr and (lfn is None or "mir" not in lfn):
                lfn = self.resolve_local_impl(tr, d.split("::")[-1], targs)
            ce = {"k": "fndef", "def": d, "id": did, "name": d.split("::")[-1], "trait": tr, "args": targs}
            if lfn is not None and "mir" in lfn:
                ce = dict(ce, resolved={"def": lfn["path"], "id": lfn["id"], "kind": "Item"})
            return self.call(st, fn, ce, list(cargs), line, depth, dest_ty, may_unwind)
        # user-supplied callable
        fid_s = inner[1] if inner[0] == "op" else repr(inner)
        ev = self.emit(st, {"k": "USER", "f": fid_s, "args": list(cargs), "locks": dict(st.locks)}, fn, line)
        r = self.fresh_op(st, "user", dest_ty, tag=("user", ev["i"]))
        ev["result"] = r[1]
        return self.outcomes(st, r, may_unwind, "user closure", fn, line)

    def intern_subst(self, sub):
        if not sub:
            return 0
        for i, x in enumerate(self.subst_table):
            if x == sub:
                return i
        self.subst_table.append(dict(sub))
        return len(self.subst_table) - 1

    def callee_subst(self, lfn, ce, tid):
        """generic arguments of a direct call to a crate-local generic function, as a substitution for its body
        (so that `A::acquire(..)` inside `ordered_acquire::<A>` resolves when it is inlined into `ordered_write`)"""
        if lfn.get("id") != ce.get("id") or not ce.get("args"):
            return None
        gens = lfn.get("generics") or []
        sub = {}
        for g in gens:
            if g.get("kind") == "type" and g["index"] < len(ce["args"]):
                a = ce["args"][g["index"]]
                if a.get("k") not in ("region", "const") and not (a.get("k") == "param" and a.get("name") == g["name"]):
                    sub[(g["name"], g["index"])] = a
            elif g.get("kind") == "const" and g["index"] < len(ce["args"]):
                a = ce["args"][g["index"]]
                v = self._const_arg_value(a.get("s")) if a.get("k") == "const" else None
                if v is not None:
                    sub[("#const", g["name"])] = v
        return sub or None

    def _const_arg_value(self, s):
        """value of a const generic argument as the driver prints it (`false`, `3`, `3_usize`, a named constant, or the
        caller's own const parameter)"""
        if s is None:
            return None
        if s in ("true", "false"):
            return s == "true"
        try:
            return int(s.split("_")[0])
        except ValueError:
            pass
        s = s.strip("{} ")
        if s in self.F.consts:
            return self.F.consts[s]
        cur = (self.frame_subst.get(self.cur_fid) or {}).get(("#const", s))
        if cur is not None:
            return cur
        return self.const_params.get(s)

    def resolve_local_impl(self, trait, name, targs):
        """The crate-local impl method selected by a trait-method path whose Self type (and trait arguments) name ADTs."""
        if not targs:
            return None
        selft = targs[0]
        cands = []
        for imp in self.F.impls_of(trait):
            it = imp["self_ty"]
            if not (it["k"] == "adt" and selft.get("k") == "adt" and it["path"] == selft["path"]):
                continue
            ok = True
            for a, b in zip(imp.get("trait_args", []), targs[1:]):
                if a["k"] == "adt" and (b.get("k") != "adt" or a["path"] != b["path"]):
                    ok = False
            if ok:
                cands.append(imp)
        if len(cands) != 1:
            return None
        for item in cands[0]["items"]:
            if item["name"] == name:
                f = self.F.fn_by_id.get(item["id"])
                if f is not None and "mir" in f:
                    return f
        return None

    def variants_of(self, st, v, n=2):
        """[(variant index, payload value or None, state)] of an Option/Result-like value."""
        if v[0] == "agg":
            return [(v[3], v[4][0] if v[4] else None, st)]
        if v[0] == "op":
            known = st.facts.get(v[1])
            if isinstance(known, tuple) and known and known[0] == "variant" and isinstance(known[1], int):
                return [(known[1], self.project(st, v, 0, None), st)]
            out = []
            for k in range(n):
                s2 = st.fork()
                s2.facts[v[1]] = ("variant", k)
                out.append((k, self.project(s2, v, 0, None), s2))
            return out
        raise Undecided("variant of %r" % (v,))

    def untuple(self, st, tup, n=None):
        if tup[0] == "agg":
            return list(tup[4])
        if tup == UNIT:
            return []
        if tup[0] == "op" and n is not None:
            return [self.project(st, tup, i, None) for i in range(n)]
        raise Undecided("cannot untuple %r" % (tup,))

    def inline(self, st, lfn, args, depth, subst=None):
        outs = []
        for kind, val, s2, note in self.run_fn(lfn, args, st, depth + 1, subst):
            if kind in ("ret", "unwind"):
                outs.append((kind, val, s2))
            elif kind == "cut":
                outs.append(("cut", note, s2))
        return outs

    def call(self, st, fn, ce, args, line, depth, dest_ty, may_unwind):
        if ce["k"] != "fndef":
            self.emit(st, {"k": "CALL", "def": "<indirect>", "args": args}, fn, line)
            return self.outcomes(st, self.fresh_op(st, "r", dest_ty), may_unwind, "indirect call", fn, line)
        S = self.frame_subst.get(self.cur_fid) or {}
        if S and ce.get("args"):
            ce = dict(ce, args=[a if a.get("k") in ("region", "const") else _subst(a, S) for a in ce["args"]])
        name = ce["name"]
        d = ce["def"]
        r = ce.get("resolved") if isinstance(ce.get("resolved"), dict) else None
        trait = ce.get("trait")
        tdef = r["def"] if r else d
        tid = r["id"] if r else ce["id"]
        lfn = self.F.fn_by_id.get(tid)
        if lfn is not None and "mir" not in lfn:
            lfn = None
        if r and r["kind"] not in ("Item", "ClosureOnceShim"):
            lfn = None if r["kind"] == "Virtual" else lfn
        if lfn is None and r is None and trait and not trait.startswith("lock_api::") and trait not in FN_TRAITS_ and \
                trait not in ("lockable::RawLock", "lockable::Lockable", "lockable::Sharable"):
            cand = self.resolve_local_impl(trait, name, [a for a in ce.get("args", []) if isinstance(a, dict) and a.get("k") not in ("region", "const")])
            if cand is not None:
                lfn, tdef, tid = cand, cand["path"], cand["id"]

        if trait == "lockable::RawLock" and name in HL_OPS:
            if self.inline_hl and lfn is not None:
                return self.inline(st, lfn, args, depth)
            return self.hl_event(st, fn, name, args, line, may_unwind, tdef)
        if trait in ("lockable::Lockable", "lockable::Sharable") and name in ASSUME_OPS:
            if self.inline_assume and lfn is not None:
                return self.inline(st, lfn, args, depth)
            if lfn is not None and self.inline_assume_of:
                imp = self.F.impl_of_fn(lfn)
                if imp and imp["self_ty"]["k"] == "adt" and imp["self_ty"]["path"] in self.inline_assume_of:
                    return self.inline(st, lfn, args, depth)
            return self.assume_event(st, fn, name, args, line, dest_ty, tdef)
        if trait == "lockable::Lockable" and name == "get_ptrs":
            if self.getptrs_hook is not None:
                out = self.getptrs_hook(self, st, fn, ce, args, line, depth)
                if out is not None:
                    return out
            recv = self.recv_of(st, args[0])
            self.emit(st, {"k": "GETPTRS", "recv": self.recv_name(recv), "into": args[1], "impl": tdef}, fn, line)
            return [("ret", UNIT, st)]
        if trait in ("std::ops::FnOnce", "std::ops::FnMut", "std::ops::Fn"):
            n = None
            if args[1][0] == "op":
                t = self.optype.get(args[1][1])
                n = len(t["elems"]) if t and t["k"] == "tuple" else None
            return self.call_value(st, args[0], self.untuple(st, args[1], n), fn, line, depth, dest_ty, may_unwind)
        if trait in RAW_TRAITS:
            recv = self.recv_of(st, args[0])
            owner = self.leaf_owner(recv)
            ev = self.emit(st, {"k": "RAW", "op": name, "recv": self.recv_name(recv), "trait": trait,
                                "owner": self.recv_name(owner) if owner is not None else None}, fn, line)
            hl = RAW_HL.get(name)
            # The typestate follows the raw operation wherever it is written: when a function other than a leaf lock's own
            # RawLock impl reaches a lock_api operation on the raw-lock field of a leaf lock (through private inherent
            # helpers instead of the trait methods), it has the effect of the corresponding HL operation on that lock.
            derive = hl is not None and owner is not None and not self.root_is_leaf_rawlock_impl
            rv = UNIT
            if name.startswith("try_"):
                if derive:
                    dev = self.emit(st, {"k": "TRY", "recv": self.recv_name(owner), "mode": hl[1], "impl": tdef, "derived": True}, fn, line)
                    rv = self.fresh_op(st, "try", dest_ty, tag=("try", self.recv_name(owner), hl[1], dev["i"]))
                    dev["result"] = rv[1]
                else:
                    rv = self.fresh_op(st, "rawtry", dest_ty, tag=("rawtry", ev["i"]))
                ev["result"] = rv[1]
                return self.outcomes(st, rv, may_unwind, "raw " + name, fn, line)
            outs = self.outcomes(st, rv, may_unwind, "raw " + name, fn, line)
            if derive:
                orecv = self.recv_name(owner)
                cur = st.locks.get(orecv, "U")
                if hl[0] == "ACQ":
                    dev = self.emit(st, {"k": "ACQ", "recv": orecv, "mode": hl[1], "impl": tdef, "derived": True}, fn, line)
                    if cur in ("W", "R"):
                        self.problem(st, "ACQ_WHILE_HELD", dev, have=cur)
                    st.locks[orecv] = hl[1]
                elif hl[0] == "REL":
                    dev = self.emit(st, {"k": "REL", "recv": orecv, "mode": hl[1], "impl": tdef, "derived": True}, fn, line)
                    if cur != hl[1]:
                        self.problem(st, "REL_NOT_HELD", dev, have=cur)
                    st.locks[orecv] = "U"
            return outs
        if tdef in self.primitives:
            h = self.primitives[tdef]
            if h is not None:
                return h(self, st, fn, tdef, args, line, dest_ty, may_unwind)
            ev = self.emit(st, {"k": "PRIM", "def": tdef, "role": self.roles.get(tdef), "args": args}, fn, line)
            rv = self.fresh_op(st, "p", dest_ty, tag=("prim", tdef, ev["i"]))
            ev["result"] = rv[1]
            return self.outcomes(st, rv, may_unwind, tdef, fn, line)
        for m in (MODELS.get(d), MODELS.get(tdef) if tdef != d else None):
            if m is not None:
                out = m(self, st, fn, ce, args, line, depth, dest_ty, may_unwind)
                if out is not None:
                    return out
        if lfn is not None:
            return self.inline(st, lfn, args, depth, self.callee_subst(lfn, ce, tid))
        # unknown foreign function
        ev = self.emit(st, {"k": "CALL", "def": tdef, "base": d, "args": args,
                            "targs": [a for a in (ce.get("args") or []) if isinstance(a, dict) and a.get("k") not in ("region", "const")]}, fn, line)
        rv = self.fresh_op(st, "r", dest_ty, tag=("call", tdef, ev["i"]))
        ev["result"] = rv[1]
        nounwind = (d in NOUNWIND) or (tdef in NOUNWIND) or (d in self.nounwind_extra) or \
            d.startswith(("std::sync::atomic::", "core::sync::atomic::"))      # atomic operations run no code that can panic
        return self.outcomes(st, rv, may_unwind and not nounwind, tdef, fn, line)

    def hl_event(self, st, fn, name, args, line, may_unwind, tdef):
        kind, mode = HL_OPS[name]
        recv = self.recv_name(self.recv_of(st, args[0]))
        cur = st.locks.get(recv, "U")
        if kind == "ACQ":
            if self.acq_limit is not None and sum(1 for e in st.events if e["k"] == "ACQ") >= self.acq_limit:
                # bounded retries of an optimistic algorithm: one blocking acquisition per round, whatever the loop looks like
                return [("cut", "retry bound (%d blocking acquisitions)" % self.acq_limit, st)]
            ev = self.emit(st, {"k": "ACQ", "recv": recv, "mode": mode, "impl": tdef}, fn, line)
            if cur in ("W", "R"):
                self.problem(st, "ACQ_WHILE_HELD", ev, have=cur)
            outs = []
            if may_unwind and self.can_fault(st):
                s2 = st.fork()
                s2.faults += 1
                self.emit(s2, {"k": "UNWIND_AT", "what": "ACQ", "recv": recv}, fn, line)
                outs.append(("unwind", None, s2))
            st.locks[recv] = mode
            return [("ret", UNIT, st)] + outs
        if kind == "TRY":
            ev = self.emit(st, {"k": "TRY", "recv": recv, "mode": mode, "impl": tdef}, fn, line)
            rv = self.fresh_op(st, "try", {"k": "prim", "name": "bool", "s": "bool"},
                               tag=("try", recv, mode, ev["i"]))
            ev["result"] = rv[1]
            return self.outcomes(st, rv, may_unwind, "TRY", fn, line)
        if kind == "REL":
            ev = self.emit(st, {"k": "REL", "recv": recv, "mode": mode, "impl": tdef}, fn, line)
            if cur != mode:
                self.problem(st, "REL_NOT_HELD", ev, have=cur)
            outs = []
            if may_unwind and self.can_fault(st):
                s2 = st.fork()
                s2.faults += 1
                self.emit(s2, {"k": "UNWIND_AT", "what": "REL", "recv": recv}, fn, line)
                s2.locks[recv] = "K"
                outs.append(("unwind", None, s2))
            st.locks[recv] = "U"
            return [("ret", UNIT, st)] + outs
        ev = self.emit(st, {"k": "KILL", "recv": recv, "impl": tdef}, fn, line)
        st.locks[recv] = "K"
        return [("ret", UNIT, st)]

    def assume_event(self, st, fn, name, args, line, dest_ty, tdef):
        mode = ASSUME_OPS[name]
        recv = self.recv_name(self.recv_of(st, args[0]))
        ev = self.emit(st, {"k": "ASSUME", "op": name, "recv": recv, "mode": mode, "impl": tdef}, fn, line)
        self.check_assume(st, ev)
        rv = self.fresh_op(st, "g", dest_ty, tag=("assume", recv, mode, ev["i"]))
        ev["result"] = rv[1]
        if name in ("guard", "read_guard"):
            st.guards[rv[1]] = (recv, mode, "live")
        return [("ret", rv, st)]

    def cell_access(self, st, loc, mut, fn, line):
        """A reference into the UnsafeCell of a RawLock type is being produced."""
        if loc[0] != "O" or not loc[2] or loc[2][-1] != "cell" or len(loc[2]) < 2:
            return
        owner = ("O", loc[1], loc[2][:-2])
        t = self.loc_ty(owner)
        if t is None or t["k"] != "adt" or t["path"] not in self.rawlock_adts():
            # a cell reached through a pointer field of a RawLock wrapper (the boxed collection's heap cell holds the
            # lockable itself, not protected data): report who touches it mutably
            projs = loc[2][:-1]
            while projs and projs[-1] == "*":
                projs = projs[:-1]
            if projs and isinstance(projs[-1], int):
                o2 = ("O", loc[1], projs[:-1])
                t2 = self.loc_ty(o2)
                if t2 is not None and t2["k"] == "adt" and t2["path"] in self.rawlock_adts():
                    self.emit(st, {"k": "COLL_DATA_MUT" if mut else "COLL_DATA_REF", "recv": self.recv_name(o2),
                                   "adt": t2["path"]}, fn, line)
            return
        recv = self.recv_name(self.canon(owner))
        if self.is_exclusive(loc):
            # reached only through `&mut`/owned paths: the borrow checker guarantees exclusivity, no hold needed
            self.emit(st, {"k": "EXCL_ACCESS", "recv": recv}, fn, line)
            return
        ev = self.emit(st, {"k": "ASSUME", "op": "cell_mut" if mut else "cell_ref", "recv": recv,
                            "mode": "W" if mut else "RW"}, fn, line)
        self.check_assume(st, ev)

    def is_exclusive(self, loc):
        """True iff every dereference on the access path goes through `&mut` (or an owned Box)."""
        if loc[0] != "O":
            return False
        t = self.optype.get(loc[1])
        for p in loc[2]:
            if t is None:
                return False
            if p == "*":
                if t["k"] == "ref" and not t["mut"]:
                    return False
                if t["k"] == "ptr":
                    return False
            t = self.proj_ty(t, p)
        return True

    def leaf_owner(self, loc, leaf_only=False):
        """the leaf lock object whose raw-lock field `loc` is (or None); the field may sit inside private structs of the
        lock (`state: LeafState { raw, killed }`): up to three field steps are walked up"""
        if loc is None or loc[0] != "O" or not loc[2] or not isinstance(loc[2][-1], int):
            return None
        proj = loc[2]
        for _ in range(3):
            if not proj or not isinstance(proj[-1], int):
                return None
            proj = proj[:-1]
            owner = ("O", loc[1], proj)
            t = self.loc_ty(owner)
            if t is None or t["k"] != "adt":
                return None
            if t["path"] in (self.leaf_adts() if leaf_only else self.rawlock_adts()):
                return self.canon(owner)
            if not t.get("local"):
                return None
        return None

    def leaf_adts(self):
        """RawLock ADTs that own a raw lock (their impl is bounded by a lock_api trait): Mutex, RwLock"""
        if not hasattr(self, "_leaf_adts"):
            self._leaf_adts = set(i["self_ty"]["path"] for i in self.F.impls_of("lockable::RawLock")
                                  if i["self_ty"]["k"] == "adt" and
                                  any(p["k"] == "trait" and p["trait"].startswith("lock_api::") for p in i["predicates"]))
        return self._leaf_adts

    def rawlock_adts(self):
        if not hasattr(self, "_rawlock_adts"):
            self._rawlock_adts = set(i["self_ty"]["path"] for i in self.F.impls_of("lockable::RawLock")
                                     if i["self_ty"]["k"] == "adt")
        return self._rawlock_adts


FN_TRAITS_ = ("std::ops::FnOnce", "std::ops::FnMut", "std::ops::Fn")


# ---- models of std functions ------------------------------------------------
def _opt(variant, fields):
    return Agg("adt", "std::option::Option", variant, fields)


def _res(variant, fields):
    return Agg("adt", "std::result::Result", variant, fields)


def m_mem_drop(I, st, fn, ce, args, line, depth, dest_ty, may_unwind):
    ty = ce["args"][0] if ce.get("args") else None
    I.emit(st, {"k": "MEMDROP", "val": args[0][1] if args[0][0] == "op" else None, "ty": ty["s"] if ty else "?"}, fn, line)
    out = []
    for kind, s2 in I.drop_value(st, args[0], ty, fn, line, depth):
        out.append(("ret" if kind == "ok" else "unwind", UNIT if kind == "ok" else None, s2))
    return out


def m_mem_forget(I, st, fn, ce, args, line, depth, dest_ty, may_unwind):
    I.emit(st, {"k": "FORGET", "val": args[0], "ty": _first_targ(ce)}, fn, line)
    return [("ret", UNIT, st)]


def m_then_some(I, st, fn, ce, args, line, depth, dest_ty, may_unwind):
    ty = ce["args"][0] if ce.get("args") else None
    out = []
    for b, s2 in I.fork_bool(st, args[0]):
        if b:
            out.append(("ret", _opt(1, [args[1]]), s2))
        else:
            I.emit(s2, {"k": "EAGER_DROP", "what": "then_some argument dropped on false", "val": args[1]}, fn, line)
            for kind, s3 in I.drop_value(s2, args[1], ty, fn, line, depth):
                out.append(("ret" if kind == "ok" else "unwind", _opt(0, []) if kind == "ok" else None, s3))
    return out


def m_then(I, st, fn, ce, args, line, depth, dest_ty, may_unwind):
    out = []
    for b, s2 in I.fork_bool(st, args[0]):
        if b:
            for kind, val, s3 in I.call_value(s2, args[1], [], fn, line, depth, None, may_unwind):
                out.append((kind, _opt(1, [val]) if kind == "ret" else val, s3))
        else:
            for kind, s3 in I.drop_value(s2, args[1], None, fn, line, depth):
                out.append(("ret" if kind == "ok" else "unwind", _opt(0, []) if kind == "ok" else None, s3))
    return out


def m_catch_unwind(I, st, fn, ce, args, line, depth, dest_ty, may_unwind):
    ev = I.emit(st, {"k": "CATCH_BEGIN"}, fn, line)
    out = []
    for kind, val, s2 in I.call_value(st, args[0], [], fn, line, depth, None, True):
        if kind == "ret":
            I.emit(s2, {"k": "CATCH_END"}, fn, line)
            out.append(("ret", _res(0, [val]), s2))
        elif kind == "unwind":
            I.emit(s2, {"k": "CAUGHT"}, fn, line)
            out.append(("ret", _res(1, [I.fresh_op(s2, "payload")]), s2))
        else:
            out.append((kind, val, s2))
    return out


def m_unwrap_or_else(I, st, fn, ce, args, line, depth, dest_ty, may_unwind):
    res, g = args
    if res[0] != "agg":
        raise Undecided("unwrap_or_else on unknown Result")
    if res[3] == 0:
        out = []
        for kind, s2 in I.drop_value(st, g, None, fn, line, depth):
            out.append(("ret" if kind == "ok" else "unwind", res[4][0] if kind == "ok" else None, s2))
        return out
    return I.call_value(st, g, [res[4][0]], fn, line, depth, dest_ty, may_unwind)


def _drop_then(I, st, val, fn, line, depth, result):
    out = []
    for kind, s2 in I.drop_value(st, val, None, fn, line, depth):
        out.append(("ret" if kind == "ok" else "unwind", result if kind == "ok" else None, s2))
    return out


def _wrap_calls(outs, wrap):
    return [(k, wrap(v) if k == "ret" else v, s2) for k, v, s2 in outs]


def m_map_variant(which, opt_in, res_out=None):
    """Option::map / Result::map / Result::map_err: apply the callable to the payload of variant `which`."""
    def f(I, st, fn, ce, args, line, depth, dest_ty, may_unwind):
        out = []
        for k, payload, s2 in I.variants_of(st, args[0]):
            mk = (lambda k_: (lambda v: _opt(k_, [v] if v is not None else []))) if opt_in else (lambda k_: (lambda v: _res(k_, [v])))
            if k == which:
                out += _wrap_calls(I.call_value(s2, args[1], [payload], fn, line, depth, None, may_unwind), mk(k))
            else:
                keep = _opt(k, [payload] if (payload is not None and not (opt_in and k == 0)) else []) if opt_in else _res(k, [payload])
                out += _drop_then(I, s2, args[1], fn, line, depth, keep)
        return out
    return f


def m_ok_or(lazy):
    def f(I, st, fn, ce, args, line, depth, dest_ty, may_unwind):
        out = []
        for k, payload, s2 in I.variants_of(st, args[0]):
            if k == 1:      # Some(x) -> Ok(x); the unused error value / closure is dropped here
                out += _drop_then(I, s2, args[1], fn, line, depth, _res(0, [payload]))
            elif lazy:
                out += _wrap_calls(I.call_value(s2, args[1], [], fn, line, depth, None, may_unwind), lambda v: _res(1, [v]))
            else:
                out.append(("ret", _res(1, [args[1]]), s2))
        return out
    return f


def m_res_to_opt(keep):
    """Result::ok (keep=0) / Result::err (keep=1): the other payload is dropped."""
    def f(I, st, fn, ce, args, line, depth, dest_ty, may_unwind):
        out = []
        for k, payload, s2 in I.variants_of(st, args[0]):
            if k == keep:
                out.append(("ret", _opt(1, [payload]), s2))
            else:
                out += _drop_then(I, s2, payload, fn, line, depth, _opt(0, []))
        return out
    return f


def m_is_variant(which):
    def f(I, st, fn, ce, args, line, depth, dest_ty, may_unwind):
        v = args[0]
        if v[0] == "ref":
            v = I.load(st, v[1])
        return [("ret", Const(k == which), s2) for k, _, s2 in I.variants_of(st, v)]
    return f


def m_unwrap(ok_variant):
    def f(I, st, fn, ce, args, line, depth, dest_ty, may_unwind):
        out = []
        for k, payload, s2 in I.variants_of(st, args[0]):
            if k == ok_variant:
                out.append(("ret", payload, s2))
            else:
                I.emit(s2, {"k": "PANIC", "what": ce["def"]}, fn, line)
                out.append(("unwind", None, s2))
        return out
    return f


def m_opt_filter(I, st, fn, ce, args, line, depth, dest_ty, may_unwind):
    out = []
    for k, payload, s2 in I.variants_of(st, args[0]):
        if k == 0:
            out += _drop_then(I, s2, args[1], fn, line, depth, _opt(0, []))
            continue
        tf = s2.fresh("t")
        s2.mem[(tf, 0)] = payload
        for kind, val, s3 in I.call_value(s2, args[1], [Ref(("L", tf, 0, ()))], fn, line, depth, None, may_unwind):
            if kind != "ret":
                out.append((kind, val, s3))
                continue
            for b, s4 in I.fork_bool(s3, val):
                if b:
                    out.append(("ret", _opt(1, [payload]), s4))
                else:
                    out += _drop_then(I, s4, payload, fn, line, depth, _opt(0, []))
    return out


def m_discriminant_value(I, st, fn, ce, args, line, depth, dest_ty, may_unwind):
    v = args[0]
    if v[0] == "ref":
        v = I.load(st, v[1])
    if v[0] == "agg":
        return [("ret", Const(v[3] if isinstance(v[3], int) else 0), st)]
    if v[0] == "op":
        known = st.facts.get(v[1])
        if isinstance(known, tuple) and known and known[0] == "variant" and isinstance(known[1], int):
            return [("ret", Const(known[1]), st)]
    return None


def m_opt_take(I, st, fn, ce, args, line, depth, dest_ty, may_unwind):
    a = args[0]
    if a[0] != "ref":
        return None
    v = I.load(st, a[1])
    if v[0] in ("agg", "op"):
        I.store(st, a[1], _opt(0, []))
        return [("ret", v, st)]
    return None


def m_opt_unwrap_or_else(I, st, fn, ce, args, line, depth, dest_ty, may_unwind):
    out = []
    for k, payload, s2 in I.variants_of(st, args[0]):
        if k == 1:
            out += _drop_then(I, s2, args[1], fn, line, depth, payload)
        else:
            out += I.call_value(s2, args[1], [], fn, line, depth, dest_ty, may_unwind)
    return out


def _first_targ(ce):
    for a in ce.get("args", []) or []:
        if isinstance(a, dict) and a.get("k") not in ("region", "const"):
            return a
    return None


def m_rc_deref(I, st, fn, ce, args, line, depth, dest_ty, may_unwind):
    """`&Arc<T>` / `&Rc<T>` -> `&T`: the pointee of the counted pointer (a stable place, like a Box's)"""
    a = args[0]
    if a[0] == "ref":
        return [("ret", Ref(I.add_proj(a[1], "*")), st)]
    if a[0] == "op":
        loc = I.oploc.get(a[1])
        if loc is not None:
            return [("ret", Ref(I.add_proj(I.add_proj(loc, "*"), "*")), st)]
    return None


def m_manually_drop_new(I, st, fn, ce, args, line, depth, dest_ty, may_unwind):
    # the wrapped value will never be dropped implicitly: for ownership purposes this is mem::forget that keeps the value readable
    I.emit(st, {"k": "FORGET", "val": args[0], "via": "ManuallyDrop::new", "ty": _first_targ(ce)}, fn, line)
    return [("ret", Agg("adt", "std::mem::ManuallyDrop", 0, [args[0]]), st)]


def m_resume_unwind(I, st, fn, ce, args, line, depth, dest_ty, may_unwind):
    I.emit(st, {"k": "RESUME"}, fn, line)
    return [("unwind", None, st)]


def _ptr_target(I, st, p):
    if p[0] == "ref":
        return p[1]
    if p[0] == "op":
        base = I.oploc.get(p[1])
        if base is not None:
            return I.add_proj(base, "*")
    return None


def m_cell_get(I, st, fn, ce, args, line, depth, dest_ty, may_unwind):
    loc = _ptr_target(I, st, args[0])
    if loc is None:
        return [("ret", I.fresh_op(st, "cellptr", dest_ty), st)]
    return [("ret", Ref(I.add_proj(loc, "cell")), st)]


def m_cell_into_inner(I, st, fn, ce, args, line, depth, dest_ty, may_unwind):
    v = args[0]
    if v[0] == "agg" and len(v[4]) == 1:
        return [("ret", v[4][0], st)]
    return [("ret", I.project(st, v, "cell", None), st)]


def m_cell_new(I, st, fn, ce, args, line, depth, dest_ty, may_unwind):
    return [("ret", Agg("adt", "std::cell::UnsafeCell", 0, [args[0]]), st)]


def m_ptr_as(mut):
    def f(I, st, fn, ce, args, line, depth, dest_ty, may_unwind):
        loc = _ptr_target(I, st, args[0])
        if loc is None:
            return [("ret", I.fresh_op(st, "optref", dest_ty), st)]
        I.cell_access(st, loc, mut, fn, line)
        return [("ret", _opt(1, [Ref(loc)]), st)]
    return f


def m_unwrap_unchecked(I, st, fn, ce, args, line, depth, dest_ty, may_unwind):
    v = args[0]
    if v[0] == "agg":
        if v[4]:
            return [("ret", v[4][0], st)]
        raise Undecided("unwrap_unchecked(None)")
    return [("ret", I.project(st, v, 0, None), st)]


def m_identity(I, st, fn, ce, args, line, depth, dest_ty, may_unwind):
    return [("ret", args[0], st)]


def m_nonnull_as_ref(mut):
    """NonNull::as_ref / as_mut: `&*ptr` (a NonNull value is represented by the pointer it wraps)"""
    def f(I, st, fn, ce, args, line, depth, dest_ty, may_unwind):
        a = args[0]
        if a[0] == "ref":
            a = I.load(st, a[1])      # `&self` / `&mut self` of the NonNull
        loc = _ptr_target(I, st, a)
        if loc is None:
            return None
        I.cell_access(st, loc, mut, fn, line)
        return [("ret", Ref(loc), st)]
    return f


def m_deref_field0(I, st, fn, ce, args, line, depth, dest_ty, may_unwind):
    loc = _ptr_target(I, st, args[0])
    if loc is None:
        return [("ret", I.fresh_op(st, "deref", dest_ty), st)]
    return [("ret", Ref(I.add_proj(loc, 0)), st)]


def _flag_recv(I, st, a):
    """receiver name of an atomic flag operation: the flag object (the local ADT wrapping the AtomicBool) if there is one"""
    loc = I.recv_of(st, a)
    if loc is not None and loc[0] == "O" and loc[2] and isinstance(loc[2][-1], int):
        owner = ("O", loc[1], loc[2][:-1])
        t = I.loc_ty(owner)
        if t is not None and t["k"] == "adt" and t["path"] in I.F.adts and len(I.F.adts[t["path"]]["variants"][0]["fields"]) == 1:
            return I.recv_name(owner)
    return I.recv_name(loc)


def m_atomic_load(I, st, fn, ce, args, line, depth, dest_ty, may_unwind):
    recv = _flag_recv(I, st, args[0])
    ev = I.emit(st, {"k": "FLAG_READ", "recv": recv}, fn, line)
    rv = I.fresh_op(st, "flag", dest_ty, tag=("flag", recv, ev["i"]))
    ev["result"] = rv[1]
    return [("ret", rv, st)]


def m_atomic_get_mut(I, st, fn, ce, args, line, depth, dest_ty, may_unwind):
    """`AtomicBool::get_mut(&mut self) -> &mut bool`: with exclusive access the plain read equals the atomic load; the
    result refers to a place that holds the flag's value as read now"""
    recv = _flag_recv(I, st, args[0])
    ev = I.emit(st, {"k": "FLAG_READ", "recv": recv, "via": "get_mut"}, fn, line)
    rv = I.fresh_op(st, "flag", {"k": "prim", "name": "bool", "s": "bool"}, tag=("flag", recv, ev["i"]))
    ev["result"] = rv[1]
    tf = st.fresh("flagcell")
    st.mem[(tf, 0)] = rv
    return [("ret", Ref(("L", tf, 0, ())), st)]


def m_atomic_into_inner(I, st, fn, ce, args, line, depth, dest_ty, may_unwind):
    """`AtomicBool::into_inner(self) -> bool`: the owned flag's value"""
    a = args[0]
    loc = I.oploc.get(a[1]) if a[0] == "op" else None
    recv = None
    if loc is not None:
        recv = _flag_recv(I, st, Ref(loc))
    if recv is None:
        recv = a[1] if a[0] == "op" else repr(a)
    ev = I.emit(st, {"k": "FLAG_READ", "recv": recv, "via": "into_inner"}, fn, line)
    rv = I.fresh_op(st, "flag", dest_ty, tag=("flag", recv, ev["i"]))
    ev["result"] = rv[1]
    return [("ret", rv, st)]


def m_atomic_write(kind):
    """store / swap / fetch_or / fetch_and of an AtomicBool with a literal operand"""
    def f(I, st, fn, ce, args, line, depth, dest_ty, may_unwind):
        recv = _flag_recv(I, st, args[0])
        v = args[1]
        if not (v[0] == "const" and isinstance(v[1], bool)):
            rb = I.resolve_bool(st, v) if v[0] == "op" else None
            known = st.facts.get(rb[0][1]) if rb else None
            if isinstance(known, bool):
                v = Const(known if rb[1] else not known)
            else:
                I.emit(st, {"k": "FLAG_WRITE_UNKNOWN", "recv": recv, "val": v}, fn, line)
                raise Undecided("atomic flag written with a value that is not a literal")
        val = v[1]
        eff = None
        if kind in ("store", "swap"):
            eff = "FLAG_SET" if val else "FLAG_CLEAR"
        elif kind == "fetch_or" and val:
            eff = "FLAG_SET"
        elif kind == "fetch_and" and not val:
            eff = "FLAG_CLEAR"
        if eff:
            I.emit(st, {"k": eff, "recv": recv, "via": kind}, fn, line)
            if eff == "FLAG_SET" and not I.root_is_leaf_rawlock_impl_poison:
                # the kill flag of a leaf lock set by hand (not through `RawLock::poison`): the lock is killed all the same
                loc = I.recv_of(st, args[0])
                owner = I.leaf_owner(loc, leaf_only=True) if loc is not None else None
                if owner is None and loc is not None and loc[0] == "O" and loc[2]:
                    owner = I.leaf_owner(("O", loc[1], loc[2][:-1]), leaf_only=True)
                if owner is not None:
                    orecv = I.recv_name(owner)
                    I.emit(st, {"k": "KILL", "recv": orecv, "derived": True}, fn, line)
                    st.locks[orecv] = "K"
        if kind == "store":
            return [("ret", UNIT, st)]
        # the previous value handed back by the read-modify-write (no FLAG_READ event: it is not a test of the flag)
        return [("ret", I.fresh_op(st, "flagold", dest_ty), st)]
    return f


def m_lazy_deref(I, st, fn, ce, args, line, depth, dest_ty, may_unwind):
    """LazyCell / LazyLock / OnceCell-style deref: always the same place inside the cell (the initialiser is not modelled)"""
    loc = _ptr_target(I, st, args[0])
    if loc is None:
        return None
    nl = I.add_proj(loc, "lazy")
    oid = loc_s(nl)
    if oid not in I.optype and dest_ty is not None and dest_ty.get("k") == "ref":
        I.oploc[oid] = nl
        I.optype[oid] = dest_ty["ty"]
    return [("ret", Ref(nl), st)]


def m_local_key_with(I, st, fn, ce, args, line, depth, dest_ty, may_unwind):
    ev = I.emit(st, {"k": "TLS_WITH", "key": args[0]}, fn, line)
    cell = I.fresh_op(st, "tls")
    # closure parameter type gives the type of the thread-local
    inner = args[1]
    if inner[0] == "agg" and inner[1] == "closure":
        cfn = I.F.fn_by_id.get(inner[2])
        if cfn and cfn["mir"]["arg_count"] >= 2:
            I.optype[cell[1]] = cfn["mir"]["locals"][2]["ty"]
    return I.call_value(st, args[1], [cell], fn, line, depth, dest_ty, may_unwind)


def m_local_key_try_with(I, st, fn, ce, args, line, depth, dest_ty, may_unwind):
    """`LocalKey::try_with(f)`: like `with`, the result wrapped in Ok (the AccessError case - a thread-local that is being
    destroyed - is not a path of a type without drop glue and is not explored)"""
    outs = m_local_key_with(I, st, fn, ce, args, line, depth, None, may_unwind)
    return [(k, _res(0, [v]) if k == "ret" else v, s) for k, v, s in outs]


def m_opt_copied(I, st, fn, ce, args, line, depth, dest_ty, may_unwind):
    """`Option<&T>::copied()` / `cloned()` on references (Copy payloads): Some(&x) -> Some(x), None -> None"""
    out = []
    for k, payload, s2 in I.variants_of(st, args[0]):
        if k == 1:
            v = payload
            if v is not None and v[0] == "ref":
                try:
                    v = I.load(s2, v[1])
                except Undecided:
                    return None
            out.append(("ret", _opt(1, [v]), s2))
        else:
            out.append(("ret", _opt(0, []), s2))
    return out


def m_try_branch(I, st, fn, ce, args, line, depth, dest_ty, may_unwind):
    v = args[0]
    CF = "std::ops::ControlFlow"
    if v[0] == "agg":
        if v[3] == 0:
            return [("ret", Agg("adt", CF, 0, [v[4][0]]), st)]
        return [("ret", Agg("adt", CF, 1, [_res(1, [v[4][0]])]), st)]
    if v[0] == "op":
        out = []
        s0, s1 = st.fork(), st.fork()
        s0.facts[v[1]] = ("variant", 0)
        s1.facts[v[1]] = ("variant", 1)
        out.append(("ret", Agg("adt", CF, 0, [I.project(s0, v, 0, None)]), s0))
        out.append(("ret", Agg("adt", CF, 1, [_res(1, [I.project(s1, v, 0, None)])]), s1))
        return out
    raise Undecided("Try::branch on %r" % (v,))


def m_opt_try_branch(I, st, fn, ce, args, line, depth, dest_ty, may_unwind):
    """`opt?`: Some(v) -> Continue(v), None -> Break(None)"""
    CF = "std::ops::ControlFlow"
    out = []
    for k, payload, s2 in I.variants_of(st, args[0]):
        if k == 1:
            out.append(("ret", Agg("adt", CF, 0, [payload]), s2))
        else:
            out.append(("ret", Agg("adt", CF, 1, [_opt(0, [])]), s2))
    return out


def m_opt_from_residual(I, st, fn, ce, args, line, depth, dest_ty, may_unwind):
    return [("ret", _opt(0, []), st)]


def m_from_residual(I, st, fn, ce, args, line, depth, dest_ty, may_unwind):
    v = args[0]
    inner = v[4][0] if v[0] == "agg" and v[4] else v
    return [("ret", _res(1, [Agg("wrap", "From::from", 0, [inner])]), st)]


def m_stdcell_new(I, st, fn, ce, args, line, depth, dest_ty, may_unwind):
    return [("ret", Agg("adt", "std::cell::Cell", 0, [args[0]]), st)]


def m_stdcell_get(I, st, fn, ce, args, line, depth, dest_ty, may_unwind):
    loc = _ptr_target(I, st, args[0])
    if loc is None:
        return [("ret", I.fresh_op(st, "cellval", dest_ty), st)]
    v = I.load(st, I.add_proj(loc, 0))
    if v[0] in ("uninit", "moved"):
        v = I.fresh_op(st, "cellval", dest_ty)
    if loc[0] == "O":
        I.emit(st, {"k": "CELL_GET", "recv": loc_s(loc), "val": v}, fn, line)
    return [("ret", v, st)]


def m_stdcell_set(I, st, fn, ce, args, line, depth, dest_ty, may_unwind):
    loc = _ptr_target(I, st, args[0])
    if loc is not None:
        I.store(st, I.add_proj(loc, 0), args[1])
        if loc[0] == "O":
            I.emit(st, {"k": "CELL_SET", "recv": loc_s(loc), "val": args[1]}, fn, line)
    return [("ret", UNIT, st)]


def m_stdcell_replace(I, st, fn, ce, args, line, depth, dest_ty, may_unwind):
    loc = _ptr_target(I, st, args[0])
    old = I.fresh_op(st, "cellold", dest_ty, tag=("cell_replace", args[1]))
    if loc is not None:
        l0 = I.add_proj(loc, 0)
        v = I.load(st, l0)
        if v[0] == "const":
            old = v
        I.emit(st, {"k": "CELL_REPLACE", "recv": loc_s(loc), "new": args[1], "old": old}, fn, line)
        I.store(st, l0, args[1])
    return [("ret", old, st)]


def m_stdcell_take(I, st, fn, ce, args, line, depth, dest_ty, may_unwind):
    """`Cell<Option<T>>::take()`: the stored option moves out, `None` stays behind"""
    loc = _ptr_target(I, st, args[0])
    if loc is None:
        return None
    l0 = I.add_proj(loc, 0)
    try:
        v = I.load(st, l0)
    except Undecided:
        return None
    if v[0] == "agg" and v[1] == "adt" and str(v[2]).endswith("::Option"):
        I.store(st, l0, _opt(0, []))
        return [("ret", v, st)]
    return None


def m_int_arith(kind):
    """saturating_/wrapping_/checked_ add and sub on literal integers (counters bumped defensively)"""
    def f(I, st, fn, ce, args, line, depth, dest_ty, may_unwind):
        a, b = args[0], args[1]
        if not all(x[0] == "const" and isinstance(x[1], int) and not isinstance(x[1], bool) for x in (a, b)):
            return [("ret", I.fresh_op(st, "arith", dest_ty, tag=("arith", kind, a, b)), st)]     # cannot unwind either way
        r = a[1] + b[1] if kind.endswith("add") else a[1] - b[1]
        if kind.startswith("saturating"):
            r = max(r, 0)
        if kind.startswith("checked"):
            return [("ret", _opt(1, [Const(r)]) if r >= 0 else _opt(0, []), st)]
        return [("ret", Const(r), st)]
    return f


def m_panicking(I, st, fn, ce, args, line, depth, dest_ty, may_unwind):
    ev = I.emit(st, {"k": "PANICKING"}, fn, line)
    rv = I.fresh_op(st, "panicking", dest_ty, tag=("panicking", ev["i"]))
    ev["result"] = rv[1]
    return [("ret", rv, st)]


def m_panic(I, st, fn, ce, args, line, depth, dest_ty, may_unwind):
    I.emit(st, {"k": "PANIC", "what": ce["def"]}, fn, line)
    return [("unwind", None, st)]


def m_for_each_opaque(I, st, fn, ce, args, line, depth, dest_ty, may_unwind):
    """`iter.for_each(closure)` over an unmodelled iterator: the closure runs 0, 1 or 2 times on opaque elements
    (same bound as the loop cut); the event trace shows what one iteration does."""
    it, cl = args[0], args[1]
    inner = cl
    if not (inner[0] == "agg" and inner[1] == "closure"):
        return None
    I.emit(st, {"k": "CALL", "def": ce["def"], "base": ce["def"], "args": [it]}, fn, line)
    outs = [("ret", UNIT, st.fork())]
    cur = [st]
    for rnd in range(2):
        nxt = []
        for s in cur:
            el = I.fresh_op(s, "el")
            for kind, val, s2 in I.call_value(s, cl, [el], fn, line, depth, None, may_unwind):
                if kind == "ret":
                    outs.append(("ret", UNIT, s2.fork()))
                    nxt.append(s2)
                else:
                    outs.append((kind, val, s2))
        cur = nxt
    return outs


MODELS = {
    "std::iter::Iterator::for_each": m_for_each_opaque,
    "std::mem::drop": m_mem_drop,
    "std::mem::forget": m_mem_forget,
    "core::bool::<impl bool>::then_some": m_then_some,
    "core::bool::<impl bool>::then": m_then,
    "std::panic::catch_unwind": m_catch_unwind,
    "std::result::Result::<T, E>::unwrap_or_else": m_unwrap_or_else,
    "std::panic::resume_unwind": m_resume_unwind,
    "std::cell::UnsafeCell::<T>::get": m_cell_get,
    "std::cell::UnsafeCell::<T>::get_mut": m_cell_get,
    "std::cell::UnsafeCell::<T>::into_inner": m_cell_into_inner,
    "std::cell::UnsafeCell::<T>::new": m_cell_new,
    "std::ptr::mut_ptr::<impl *mut T>::as_mut": m_ptr_as(True),
    "std::ptr::mut_ptr::<impl *mut T>::as_ref": m_ptr_as(False),
    "std::ptr::const_ptr::<impl *const T>::as_ref": m_ptr_as(False),
    "std::option::Option::<T>::unwrap_unchecked": m_unwrap_unchecked,
    "std::ptr::const_ptr::<impl *const T>::cast": m_identity,
    "std::ptr::const_ptr::<impl *const T>::cast_mut": m_identity,
    "std::ptr::mut_ptr::<impl *mut T>::cast_const": m_identity,
    "<std::vec::Vec<T, A> as std::ops::Deref>::deref": m_identity,
    "<std::vec::Vec<T, A> as std::ops::DerefMut>::deref_mut": m_identity,
    "<std::panic::AssertUnwindSafe<T> as std::ops::Deref>::deref": m_deref_field0,
    "std::thread::LocalKey::<T>::with": m_local_key_with,
    "std::thread::LocalKey::<T>::try_with": m_local_key_try_with,
    "std::option::Option::<&T>::copied": m_opt_copied,
    "std::option::Option::<&mut T>::copied": m_opt_copied,
    "std::sync::atomic::AtomicBool::load": m_atomic_load,
    "std::sync::atomic::AtomicBool::store": m_atomic_write("store"),
    "std::sync::atomic::AtomicBool::swap": m_atomic_write("swap"),
    "std::sync::atomic::AtomicBool::fetch_or": m_atomic_write("fetch_or"),
    "std::sync::atomic::AtomicBool::fetch_and": m_atomic_write("fetch_and"),
    "std::sync::atomic::Atomic::<bool>::load": m_atomic_load,
    "std::sync::atomic::AtomicBool::get_mut": m_atomic_get_mut,
    "std::sync::atomic::Atomic::<bool>::get_mut": m_atomic_get_mut,
    "std::sync::atomic::AtomicBool::into_inner": m_atomic_into_inner,
    "std::sync::atomic::Atomic::<bool>::into_inner": m_atomic_into_inner,
    "std::sync::atomic::Atomic::<bool>::store": m_atomic_write("store"),
    "std::sync::atomic::Atomic::<bool>::swap": m_atomic_write("swap"),
    "std::sync::atomic::Atomic::<bool>::fetch_or": m_atomic_write("fetch_or"),
    "std::sync::atomic::Atomic::<bool>::fetch_and": m_atomic_write("fetch_and"),
    "<std::cell::LazyCell<T, F> as std::ops::Deref>::deref": m_lazy_deref,
    "std::cell::LazyCell::<T, F>::force": m_lazy_deref,
    "<std::sync::LazyLock<T, F> as std::ops::Deref>::deref": m_lazy_deref,
    "<std::result::Result<T, E> as std::ops::Try>::branch": m_try_branch,
    "<std::option::Option<T> as std::ops::Try>::branch": m_opt_try_branch,
    "<std::option::Option<T> as std::ops::FromResidual<std::option::Option<std::convert::Infallible>>>::from_residual": m_opt_from_residual,
    "<std::result::Result<T, F> as std::ops::FromResidual<std::result::Result<std::convert::Infallible, E>>>::from_residual": m_from_residual,
    "std::cell::Cell::<T>::new": m_stdcell_new,
    "std::cell::Cell::<T>::get": m_stdcell_get,
    "std::cell::Cell::<T>::set": m_stdcell_set,
    "std::cell::Cell::<T>::replace": m_stdcell_replace,
    "std::cell::Cell::<T>::take": m_stdcell_take,
    "core::num::<impl usize>::saturating_add": m_int_arith("saturating_add"),
    "core::num::<impl usize>::saturating_sub": m_int_arith("saturating_sub"),
    "core::num::<impl usize>::wrapping_add": m_int_arith("wrapping_add"),
    "core::num::<impl usize>::wrapping_sub": m_int_arith("wrapping_sub"),
    "core::num::<impl usize>::checked_add": m_int_arith("checked_add"),
    "core::num::<impl usize>::checked_sub": m_int_arith("checked_sub"),
    "std::thread::panicking": m_panicking,
    "<I as std::iter::IntoIterator>::into_iter": m_identity,
    "core::panicking::panic_fmt": m_panic,
    "core::panicking::panic": m_panic,
    "std::cell::UnsafeCell::<T>::raw_get": m_cell_get,
    "std::ptr::from_ref": m_identity,
    "std::ptr::from_mut": m_identity,
    "std::ptr::mut_ptr::<impl *mut T>::cast": m_identity,
    "std::ptr::NonNull::<T>::as_ptr": m_identity,
    "std::ptr::NonNull::<T>::new_unchecked": m_identity,
    "std::ptr::NonNull::<T>::cast": m_identity,
    "std::ptr::NonNull::<T>::as_ref": m_nonnull_as_ref(False),
    "std::ptr::NonNull::<T>::as_mut": m_nonnull_as_ref(True),
    "<std::ptr::NonNull<T> as std::convert::From<&mut T>>::from": m_identity,
    "<std::ptr::NonNull<T> as std::convert::From<&T>>::from": m_identity,
    "std::ptr::NonNull::<T>::from_ref": m_identity,
    "std::ptr::NonNull::<T>::from_mut": m_identity,
    "std::option::Option::<T>::map": m_map_variant(1, True),
    "std::result::Result::<T, E>::map": m_map_variant(0, False),
    "std::result::Result::<T, E>::map_err": m_map_variant(1, False),
    "std::intrinsics::discriminant_value": m_discriminant_value,
    "std::mem::discriminant": m_discriminant_value,
    "std::option::Option::<T>::filter": m_opt_filter,
    "std::option::Option::<T>::take": m_opt_take,
    "std::option::Option::<T>::unwrap_or_else": m_opt_unwrap_or_else,
    "core::panicking::unreachable_display": m_panic,
    "core::panicking::panic_explicit": m_panic,
    "std::option::Option::<T>::ok_or": m_ok_or(False),
    "std::option::Option::<T>::ok_or_else": m_ok_or(True),
    "std::result::Result::<T, E>::ok": m_res_to_opt(0),
    "std::result::Result::<T, E>::err": m_res_to_opt(1),
    "std::option::Option::<T>::is_some": m_is_variant(1),
    "std::option::Option::<T>::is_none": m_is_variant(0),
    "std::result::Result::<T, E>::is_ok": m_is_variant(0),
    "std::result::Result::<T, E>::is_err": m_is_variant(1),
    "std::option::Option::<T>::unwrap": m_unwrap(1),
    "std::option::Option::<T>::expect": m_unwrap(1),
    "std::result::Result::<T, E>::unwrap": m_unwrap(0),
    "std::result::Result::<T, E>::expect": m_unwrap(0),
    "std::mem::ManuallyDrop::<T>::new": m_manually_drop_new,
    "<std::mem::ManuallyDrop<T> as std::ops::Deref>::deref": m_deref_field0,
    "<std::mem::ManuallyDrop<T> as std::ops::DerefMut>::deref_mut": m_deref_field0,
}
