"""Fact loading, indexes and type helpers for the happylock rule engine.

Facts are produced by the hlfacts rustc driver (engine/hlfacts) from /repo's
current working tree; see engine/run_facts.sh.  Nothing here reads source text.
"""
import hashlib
import json
import os
import subprocess
import sys
import time
import fcntl

VERIF = os.path.dirname(os.path.dirname(os.path.dirname(os.path.abspath(__file__))))
REPO = os.environ.get("HLV_REPO", "/repo")
CACHE = os.path.join(VERIF, ".cache")

CONFIGS = {
    "default": [],
    "all-features": ["--all-features"],
    "no-default-features": ["--no-default-features"],
}


def repo_hash(repo=None):
    repo = repo or REPO
    h = hashlib.sha256()
    files = []
    for base in ("Cargo.toml", "Cargo.lock"):
        files.append(os.path.join(repo, base))
    for root, dirs, fs in os.walk(os.path.join(repo, "src")):
        dirs.sort()
        for f in sorted(fs):
            files.append(os.path.join(root, f))
    for p in files:
        h.update(p[len(repo):].encode())
        try:
            with open(p, "rb") as fh:
                h.update(fh.read())
        except OSError:
            h.update(b"<missing>")
    drv = os.path.join(VERIF, "engine/hlfacts/target/release/hlfacts")
    try:
        st = os.stat(drv)
        h.update(("%d:%d" % (st.st_size, int(st.st_mtime))).encode())
    except OSError:
        pass
    return h.hexdigest()[:24]


def ensure_driver():
    drv = os.path.join(VERIF, "engine/hlfacts/target/release/hlfacts")
    if not os.path.exists(drv):
        subprocess.check_call(
            ["cargo", "+nightly", "build", "--release", "--offline"],
            cwd=os.path.join(VERIF, "engine/hlfacts"),
            stdout=subprocess.DEVNULL, stderr=subprocess.DEVNULL)
    return drv


def facts_path(config="default", repo=None):
    """Return path of a fresh fact file for /repo's current tree (extract if needed)."""
    repo = repo or REPO
    os.makedirs(CACHE, exist_ok=True)
    ensure_driver()
    key = repo_hash(repo)
    out = os.path.join(CACHE, "facts-%s-%s.json" % (config, key))
    if os.path.exists(out) and os.path.getsize(out) > 0:
        return out
    lock = open(os.path.join(CACHE, "lock-%s" % config), "w")
    fcntl.flock(lock, fcntl.LOCK_EX)
    try:
        if os.path.exists(out) and os.path.getsize(out) > 0:
            return out
        # keep the cache small: drop the oldest entries beyond 48 files
        ents = sorted((os.path.getmtime(os.path.join(CACHE, f)), f) for f in os.listdir(CACHE)
                      if f.startswith("facts-") or f.startswith("witness-"))
        for _, f in ents[:-48]:
            try:
                os.unlink(os.path.join(CACHE, f))
            except OSError:
                pass
        tmp = out + ".tmp%d" % os.getpid()
        r = subprocess.run(
            [os.path.join(VERIF, "engine/run_facts.sh"), repo, tmp] + CONFIGS[config],
            stdout=subprocess.PIPE, stderr=subprocess.PIPE, text=True)
        if r.returncode != 0 or not os.path.exists(tmp):
            sys.stderr.write(r.stderr[-4000:])
            raise FactsError("fact extraction failed for config %s (does /repo build?)" % config)
        os.replace(tmp, out)
        return out
    finally:
        fcntl.flock(lock, fcntl.LOCK_UN)
        lock.close()


class FactsError(Exception):
    pass


class Facts:
    def __init__(self, path):
        self.path = path
        with open(path) as fh:
            d = json.load(fh)
        if d.get("crate") != "happylock":
            raise FactsError("fact file is not for crate happylock")
        self.raw = d
        self.consts = {}
        for c in d.get("consts", []):
            bits = int(c["bits"])
            self.consts[c["path"]] = bool(bits) if c["ty"].get("name") == "bool" else bits
        self.adts = {a["path"]: a for a in d["adts"]}
        self.traits = {t["path"]: t for t in d["traits"]}
        self.impls = d["impls"]
        self.fns = d["fns"]
        self.fn_by_id = {f["id"]: f for f in d["fns"]}
        self.fn_by_path = {}
        for f in d["fns"]:
            self.fn_by_path.setdefault(f["path"], []).append(f)
        self.impl_by_id = {i["id"]: i for i in d["impls"]}
        self.statics = d["statics"]
        self.aliases = d["aliases"]
        self.probes = d["probes"]
        # closures by parent
        self.closures_of = {}
        for f in d["fns"]:
            if f["kind"] == "Closure":
                self.closures_of.setdefault(f["parent"], []).append(f)
        # floors: fail closed on an empty or partial dump
        if len(self.fns) < 300 or len(self.impls) < 150 or len(self.adts) < 15:
            raise FactsError("fact file implausibly small: %d fns %d impls %d adts"
                             % (len(self.fns), len(self.impls), len(self.adts)))

    # ---- lookup helpers -------------------------------------------------
    def fn(self, path):
        """Unique function by exact path (raises if missing/ambiguous)."""
        l = self.fn_by_path.get(path, [])
        if len(l) != 1:
            raise KeyError("function %r: %d matches" % (path, len(l)))
        return l[0]

    def fns_matching(self, pred):
        return [f for f in self.fns if pred(f)]

    def impls_of(self, trait, local_only=True):
        return [i for i in self.impls if i.get("trait") == trait]

    def impl_of_fn(self, f):
        c = f.get("container")
        return self.impl_by_id.get(c)

    def top_fn(self, f):
        """Enclosing non-closure function of a closure (or f itself)."""
        while f["kind"] == "Closure":
            g = self.fn_by_id.get(f["parent"])
            if g is None:
                return f   # closure inside a const/static initialiser
            f = g
        return f

    def file_line(self, f, line=None):
        return "%s:%d" % (f["span"]["file"], line or f["span"]["line"])

    def trait_item_of(self, f):
        return f.get("trait_item")

    def has_impl(self, trait, adt_path):
        for i in self.impls_of(trait):
            st = i["self_ty"]
            if st["k"] == "adt" and st["path"] == adt_path:
                return True
        return False


# ---- type helpers --------------------------------------------------------

def ty_s(t):
    return t.get("s", "?")


def ty_walk(t):
    """Yield t and every type nested in it."""
    yield t
    k = t["k"]
    if k in ("adt", "alias", "fndef"):
        for a in t.get("args", []):
            if a["k"] not in ("region", "const"):
                yield from ty_walk(a)
    elif k in ("ref", "ptr", "array", "slice"):
        yield from ty_walk(t["ty"])
    elif k == "tuple":
        for e in t["elems"]:
            yield from ty_walk(e)
    elif k == "closure":
        for e in t.get("upvars", []):
            yield from ty_walk(e)


def ty_mentions_adt(t, path):
    return any(x["k"] == "adt" and x["path"] == path for x in ty_walk(t))


def ty_subst(t, generics, args):
    """Substitute type params of `generics` (list of {name,index,kind}) by `args` (list of arg json)."""
    if not args:
        return t
    m = {}
    for g in generics:
        if g["index"] < len(args):
            m[(g["name"], g["index"])] = args[g["index"]]
    return _subst(t, m)


def _subst(t, m):
    k = t["k"]
    if k == "param":
        r = m.get((t["name"], t["index"]))
        if r is not None and r["k"] not in ("region", "const"):
            return r
        return t
    if k in ("adt", "alias", "fndef"):
        n = dict(t)
        n["args"] = [a if a["k"] in ("region", "const") else _subst(a, m) for a in t.get("args", [])]
        n["s"] = t["s"] + "[subst]"
        return n
    if k in ("ref", "ptr", "array", "slice"):
        n = dict(t)
        n["ty"] = _subst(t["ty"], m)
        return n
    if k == "tuple":
        n = dict(t)
        n["elems"] = [_subst(e, m) for e in t["elems"]]
        return n
    return t
