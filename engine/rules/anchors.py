"""Structural discovery of crate-internal anchors, so that renaming or moving an internal helper does not disturb
the rules.  Public API items (ThreadKey, Keyable, Mutex, RwLock, the collections, Poisonable, the lockable traits)
are still addressed by path: renaming them is an API change, not a refactor.

Discovered:
  handle_unwind  - the function that calls std::panic::catch_unwind
  flag ADT       - the local ADT whose only field is an AtomicBool, and its read / set / clear methods
  key cell       - the local ADT with a Cell<bool> field
  list helpers   - functions over `&[&dyn RawLock]` classified by the HL operations they perform directly:
                   ordered_write / ordered_read / ordered_try_write / ordered_try_read / recover_writes / recover_reads,
                   dup_sorted (bool result, no HL op), and get_locks / get_locks_unsorted (return Vec<&dyn RawLock>),
                   dup_set (bool result over a Lockable parameter)
"""
from facts import ty_walk

RL = "lockable::RawLock"
_cache = {}


def _is_lock_slice(t):
    return t["k"] == "ref" and t["ty"]["k"] == "slice" and t["ty"]["ty"]["k"] == "ref" and \
        t["ty"]["ty"]["ty"]["k"] == "dyn" and t["ty"]["ty"]["ty"].get("principal") == RL


def _is_lock_vec(t):
    return t["k"] == "adt" and t["path"].endswith("::Vec") and any(
        x["k"] == "dyn" and x.get("principal") == RL for x in ty_walk(t))


class Anchors:
    def __init__(self, F):
        self.F = F
        self.notes = []
        self.role = {}        # fn path -> role
        self.by_role = {}     # role -> fn path (first)
        self.handle_unwind = None
        self.handle_unwinds = []
        self.flag_adt = None
        self.flag_fn = {}     # 'read'|'set'|'clear' -> fn path
        self.keycell = None
        self._discover()

    def _closures(self, f):
        out = [f]
        for g in self.F.closures_of.get(f["id"], []):
            out += self._closures(g)
        return out

    def _calls(self, f):
        for g in self._closures(f):
            for b in g.get("mir", {}).get("blocks", []):
                t = b["term"]
                if t["k"] == "call" and t["callee"]["k"] == "fndef":
                    yield g, t

    def _discover(self):
        F = self.F
        # handle_unwind
        hu = set()
        for f in F.fns:
            if f["kind"] == "Closure":
                continue
            for g, t in self._calls(f):
                if t["callee"]["def"] == "std::panic::catch_unwind":
                    hu.add(f["path"])
        self.handle_unwinds = sorted(hu)      # each of them is held to the catch -> handler -> resume protocol (G1)
        if hu:
            self.handle_unwind = sorted(hu)[0]
        # flag ADT and key cell
        for a in F.adts.values():
            flds = [f for v in a["variants"] for f in v["fields"]]
            if len(flds) == 1 and flds[0]["ty"]["k"] == "adt" and "atomic" in flds[0]["ty"]["path"].lower() and "bool" in flds[0]["ty"]["s"]:
                self.flag_adt = a["path"]
            if any(f["ty"]["k"] == "adt" and f["ty"]["path"].endswith("cell::Cell") and "bool" in f["ty"]["s"] for f in flds):
                self.keycell = a["path"]
        if self.flag_adt:
            # methods of the flag type, classified by the atomic operations they (transitively, through other methods of the
            # flag type) perform: read = yields a bool and only loads; set / clear = writes the literal true / false
            cand = []
            for f in F.fns:
                if "inputs" not in f or not f["inputs"] or f.get("trait_item") or f["kind"] == "Closure":
                    continue
                t0 = f["inputs"][0]
                if t0["k"] == "ref" and t0["ty"]["k"] == "adt" and t0["ty"]["path"] == self.flag_adt:
                    cand.append(f)
            by_id = {f["id"]: f for f in cand}

            def atomic_ops(f, seen=None):
                seen = seen if seen is not None else set()
                if f["id"] in seen:
                    return set()
                seen.add(f["id"])
                out = set()
                for g, t in self._calls(f):
                    d = t["callee"]["def"]
                    nm = d.split("::")[-1]
                    if "atomic" in d.lower():
                        if nm == "load":
                            out.add("load")
                        elif nm in ("store", "swap", "fetch_or", "fetch_and") and len(t["args"]) >= 2 and t["args"][1]["k"] == "const":
                            val = t["args"][1]["s"] == "true"
                            if (nm == "fetch_or" and not val) or (nm == "fetch_and" and val):
                                continue
                            out.add("set" if val else "clear")
                        else:
                            out.add("other:" + nm)
                    else:
                        r = t["callee"].get("resolved") if isinstance(t["callee"].get("resolved"), dict) else None
                        cid = (r or {}).get("id") or t["callee"].get("id")
                        if cid in by_id:
                            out |= atomic_ops(by_id[cid], seen)
                return out
            self._flag_cands = cand
            for f in cand:
                ops = atomic_ops(f)
                outb = f["output"].get("name") == "bool"
                if ops == {"load"} and outb:
                    self.flag_fn.setdefault("read", f["path"])
                elif ops == {"set"} and not outb:
                    self.flag_fn.setdefault("set", f["path"])
                elif ops == {"clear"} and not outb:
                    self.flag_fn.setdefault("clear", f["path"])
        # list helpers
        for f in F.fns:
            if f["kind"] == "Closure" or "inputs" not in f or "mir" not in f:
                continue
            hl = set()
            names = set()
            for g, t in self._calls(f):
                ce = t["callee"]
                if ce.get("trait") == RL:
                    hl.add(ce["name"])
                names.add(ce["def"].split("::")[-1])
            role = None
            if any(_is_lock_slice(t) for t in f["inputs"]):
                if "raw_write" in hl:
                    role = "ordered_write"
                elif "raw_read" in hl:
                    role = "ordered_read"
                elif "raw_try_write" in hl:
                    role = "ordered_try_write"
                elif "raw_try_read" in hl:
                    role = "ordered_try_read"
                elif "raw_unlock_write" in hl and "raw_unlock_read" not in hl:
                    role = "recover_writes"
                elif "raw_unlock_read" in hl and "raw_unlock_write" not in hl:
                    role = "recover_reads"
                elif not hl and f["output"].get("name") == "bool":
                    role = "dup_sorted"
            elif _is_lock_vec(f["output"]) and not f.get("trait_item") and not f.get("container"):
                role = "get_locks" if any(n.startswith("sort") for n in names) else "get_locks_unsorted"
            elif f["output"].get("name") == "bool" and not f.get("container") and "get_ptrs" in names and "insert" in names:
                role = "dup_set"
            if role:
                # informational only (reports name the helper a finding sits in): no rule depends on these roles any more
                self.role[f["path"]] = role
                self.by_role.setdefault(role, f["path"])

    def classify_flag_methods(self, make_interp):
        """semantic classification (what the method does to the flag on its paths): used when the syntactic scan could not
        tell (operands computed through helper enums etc.)"""
        if len(self.flag_fn) == 3 or not getattr(self, "_flag_cands", None):
            return
        for f in self._flag_cands:
            if not f.get("reachable") and not f.get("vis", "").startswith("pub"):
                continue
            try:
                paths = make_interp().analyze(f)
            except Exception:
                continue
            kinds = set()
            for p in paths:
                if p.kind != "ret":
                    continue
                ks = tuple(sorted(set(e["k"] for e in p.events if e["k"] in ("FLAG_READ", "FLAG_SET", "FLAG_CLEAR") and not e.get("via"))
                                  | set(e["k"] for e in p.events if e["k"] in ("FLAG_SET", "FLAG_CLEAR"))))
                kinds.add(ks)
            outb = f["output"].get("name") == "bool"
            if kinds == {("FLAG_READ",)} and outb:
                self.flag_fn.setdefault("read", f["path"])
            elif kinds == {("FLAG_SET",)} and not outb:
                self.flag_fn.setdefault("set", f["path"])
            elif kinds == {("FLAG_CLEAR",)} and not outb:
                self.flag_fn.setdefault("clear", f["path"])

    # ---- helpers used by the rules -------------------------------------------------------------------------------
    def role_of(self, path):
        return self.role.get(path)

    def alg_paths(self):
        return set(self.role)

    def mode_kind(self, role):
        return {"ordered_write": ("ACQ", "W"), "ordered_read": ("ACQ", "R"), "ordered_try_write": ("TRY", "W"),
                "ordered_try_read": ("TRY", "R"), "recover_writes": ("RECOVER", "W"), "recover_reads": ("RECOVER", "R")}.get(role)


def get(F):
    k = id(F)
    if k not in _cache:
        _cache[k] = Anchors(F)
    return _cache[k]
