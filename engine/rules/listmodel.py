"""k-bounded list model for the multi-lock algorithms: a lock list is instantiated with a concrete length n and its
elements are the abstract objects LIST.[0] .. LIST.[n-1]; slice/Vec iteration, the usual iterator adaptors
(enumerate, take, skip, rev, copied, take_while, filter, inspect, map) and consumers (next, for_each, count, all, any),
ranges and indexing are interpreted on that shape, so loop counters and cursors are literals and the ordinary
per-receiver typestate decides which element is held.  Nothing is executed; lock outcomes stay symbolic, closures of
lazy adaptors are analysed when the consumer pulls an item (they may fork on a try outcome or unwind)."""
import interp
from interp import Agg, Const, Ref, UNIT, Undecided, MODELS, loc_s


def view(lid, lo, hi):
    return ("agg", "slice", lid, 0, (Const(lo), Const(hi)))


def new_list(I, lid, n, elem_ty):
    I.lists[lid] = n
    I.oploc[lid] = ("O", lid, ())
    I.optype[lid] = {"k": "slice", "ty": elem_ty, "s": "[%s]" % elem_ty.get("s", "?")}
    return view(lid, 0, n)


def as_view(I, st, v):
    if v[0] == "ref":
        v = I.load(st, v[1])
    if v[0] == "agg" and v[1] == "slice" and v[2] in I.lists:
        return v
    if v[0] == "agg" and v[1] == "array" and v[2] == "" and len(v[4]) <= 8 and I.lists:
        # an array literal (e.g. the promoted `&[]` an empty slice starts from) seen as a slice
        return make_list(I, st, list(v[4]))
    return None


def elem_loc(lid, k):
    return ("O", lid, ("[%d]" % k,))


def _opt(variant, fields):
    return Agg("adt", "std::option::Option", variant, fields)


def _iter(kind, fields):
    return ("agg", "iter", kind, 0, tuple(fields))


def is_iter(v):
    return v[0] == "agg" and v[1] == "iter"


def _tmp_ref(st, v):
    tf = st.fresh("t")
    st.mem[(tf, 0)] = v
    return Ref(("L", tf, 0, ()))


def _call_pred(I, st, cl, arg, fn, line, depth):
    """call a predicate closure; -> [('true'|'false'|'unwind'|other, st')]"""
    out = []
    for kind, val, s2 in I.call_value(st, cl, [arg], fn, line, depth, None, True):
        if kind == "ret":
            for b, s3 in I.fork_bool(s2, val):
                out.append(("true" if b else "false", s3))
        else:
            out.append((kind, s2))
    return out


def nexts(I, st, it, fn, line, depth):
    """pull one item: -> list of (tag, new_iter, item, state), tag in item|done|unwind|cut"""
    kind = it[2]
    if kind == "local":
        # a crate-local iterator struct: one step = one call of its own `next(&mut self)`
        v = it[4][0]
        lfn = _local_next(I, v[2])
        if lfn is None or "mir" not in lfn:
            raise Undecided("no Iterator::next body for %s" % v[2])
        tf = st.fresh("it")
        st.mem[(tf, 0)] = v
        out = []
        for knd, val, s2 in I.inline(st, lfn, [Ref(("L", tf, 0, ()))], depth):
            if knd != "ret":
                out.append((knd if knd in ("unwind", "cut") else "cut", None, None, s2))
                continue
            nv = s2.mem.get((tf, 0), v)
            for k, payload, s3 in I.variants_of(s2, val):
                if k == 1:
                    out.append(("item", _iter("local", [nv]), payload, s3))
                else:
                    out.append(("done", it, None, s3))
        return out
    if kind in ("ref", "val"):
        v, pos = it[4]
        lid, hi = v[2], v[4][1][1]
        p = pos[1]
        if p >= hi:
            return [("done", it, None, st)]
        el = elem_loc(lid, p)
        item = Ref(el) if kind == "ref" else I.load(st, el)
        return [("item", _iter(kind, [v, Const(p + 1)]), item, st)]
    if kind.startswith("rev:"):
        v, lo, hi = it[4]
        if hi[1] <= lo[1]:
            return [("done", it, None, st)]
        el = elem_loc(v[2], hi[1] - 1)
        item = Ref(el) if kind == "rev:ref" else I.load(st, el)
        return [("item", _iter(kind, [v, lo, Const(hi[1] - 1)]), item, st)]
    if kind == "enumerate":
        inner, cnt = it[4]
        out = []
        for tag, ni, item, s in nexts(I, st, inner, fn, line, depth):
            if tag == "item":
                out.append(("item", _iter("enumerate", [ni, Const(cnt[1] + 1)]), Agg("tuple", "", 0, [cnt, item]), s))
            else:
                out.append((tag, _iter("enumerate", [ni, cnt]) if ni else None, None, s))
        return out
    if kind == "take":
        inner, left = it[4]
        if left[1] <= 0:
            return [("done", it, None, st)]
        out = []
        for tag, ni, item, s in nexts(I, st, inner, fn, line, depth):
            if tag == "item":
                out.append(("item", _iter("take", [ni, Const(left[1] - 1)]), item, s))
            else:
                out.append((tag, _iter("take", [ni, left]) if ni else None, None, s))
        return out
    if kind in ("take_while", "filter"):
        inner, cl, stopped = it[4]
        if stopped == Const(True):
            return [("done", it, None, st)]
        out = []
        work = [(inner, st, 0)]
        while work:
            cur, s0, hops = work.pop()
            if hops > 8:
                out.append(("cut", None, None, s0))
                continue
            for tag, ni, item, s in nexts(I, s0, cur, fn, line, depth):
                if tag != "item":
                    out.append((tag, _iter(kind, [ni, cl, stopped]) if ni else None, None, s))
                    continue
                for verdict, s2 in _call_pred(I, s, cl, _tmp_ref(s, item), fn, line, depth):
                    if verdict == "true":
                        out.append(("item", _iter(kind, [ni, cl, stopped]), item, s2))
                    elif verdict == "false":
                        if kind == "take_while":
                            out.append(("done", _iter(kind, [ni, cl, Const(True)]), None, s2))
                        else:
                            work.append((ni, s2, hops + 1))
                    else:
                        out.append((verdict, None, None, s2))
        return out
    if kind in ("inspect", "map"):
        inner, cl = it[4]
        out = []
        for tag, ni, item, s in nexts(I, st, inner, fn, line, depth):
            if tag != "item":
                out.append((tag, _iter(kind, [ni, cl]) if ni else None, None, s))
                continue
            arg = _tmp_ref(s, item) if kind == "inspect" else item
            for k2, val, s2 in I.call_value(s, cl, [arg], fn, line, depth, None, True):
                if k2 == "ret":
                    out.append(("item", _iter(kind, [ni, cl]), item if kind == "inspect" else val, s2))
                else:
                    out.append((k2, None, None, s2))
        return out
    if kind == "range":
        lo, hi = it[4]
        if lo[1] >= hi[1]:
            return [("done", it, None, st)]
        return [("item", _iter("range", [Const(lo[1] + 1), hi]), lo, st)]
    if kind == "zip":
        ia, ib = it[4]
        out = []
        for tag, na, xa, s in nexts(I, st, ia, fn, line, depth):
            if tag != "item":
                out.append((tag, _iter("zip", [na, ib]) if na else None, None, s))
                continue
            for tag2, nb, xb, s2 in nexts(I, s, ib, fn, line, depth):
                if tag2 == "item":
                    out.append(("item", _iter("zip", [na, nb]), Agg("tuple", "", 0, [xa, xb]), s2))
                else:
                    out.append((tag2, _iter("zip", [na, nb]) if nb else None, None, s2))
        return out
    if kind == "windows":
        v, k, pos = it[4]
        lid, hi = v[2], v[4][1][1]
        if pos[1] + k[1] > hi:
            return [("done", it, None, st)]
        return [("item", _iter("windows", [v, k, Const(pos[1] + 1)]), view(lid, pos[1], pos[1] + k[1]), st)]
    if kind == "opaque":
        # an iterator the model knows nothing about: every consumer falls back to its opaque treatment
        raise Undecided("opaque iterator")
    raise Undecided("iterator kind %s" % kind)


def m_iter(by_value):
    def f(I, st, fn, ce, args, line, depth, dest_ty, may_unwind):
        v = as_view(I, st, args[0])
        if v is None:
            if is_iter(args[0]):
                return [("ret", args[0], st)]
            return None
        return [("ret", _iter("val" if by_value else "ref", [v, v[4][0]]), st)]
    return f


def m_into_iter_any(I, st, fn, ce, args, line, depth, dest_ty, may_unwind):
    """IntoIterator::into_iter on whatever the model knows: `&container` / `&mut container` iterate by reference, a
    container value by value, an iterator is returned unchanged"""
    a = args[0]
    if is_iter(a):
        return [("ret", a, st)]
    v = as_view(I, st, a)
    if v is None:
        return None
    # a view value stands both for `&[T]` and for an owned Vec<T>/[T; N]: the static Self type decides
    targs = [t for t in ce.get("args", []) if isinstance(t, dict) and t.get("k") not in ("region", "const")]
    selft = targs[0] if targs else None
    by_ref = a[0] == "ref" or (selft is not None and selft.get("k") == "ref") or selft is None
    return [("ret", _iter("ref" if by_ref else "val", [v, v[4][0]]), st)]


def m_enumerate(I, st, fn, ce, args, line, depth, dest_ty, may_unwind):
    if not is_iter(args[0]):
        return None
    return [("ret", _iter("enumerate", [args[0], Const(0)]), st)]


def m_take(I, st, fn, ce, args, line, depth, dest_ty, may_unwind):
    if not is_iter(args[0]) or args[1][0] != "const":
        return None
    return [("ret", _iter("take", [args[0], args[1]]), st)]


def m_skip(I, st, fn, ce, args, line, depth, dest_ty, may_unwind):
    it = args[0]
    if not is_iter(it) or args[1][0] != "const" or it[2] not in ("ref", "val"):
        return None
    v, pos = it[4]
    hi = v[4][1][1]
    return [("ret", _iter(it[2], [v, Const(min(hi, pos[1] + args[1][1]))]), st)]


def m_rev(I, st, fn, ce, args, line, depth, dest_ty, may_unwind):
    it = args[0]
    if not is_iter(it) or it[2] not in ("ref", "val"):
        return None
    v, pos = it[4]
    return [("ret", _iter("rev:" + it[2], [v, pos, v[4][1]]), st)]


def m_copied(I, st, fn, ce, args, line, depth, dest_ty, may_unwind):
    it = args[0]
    if not is_iter(it) or it[2] not in ("ref", "val"):
        return None
    return [("ret", _iter("val", list(it[4])), st)]


def m_lazy(kind):
    def f(I, st, fn, ce, args, line, depth, dest_ty, may_unwind):
        if not is_iter(args[0]):
            return None
        if kind in ("take_while", "filter"):
            return [("ret", _iter(kind, [args[0], args[1], Const(False)]), st)]
        return [("ret", _iter(kind, [args[0], args[1]]), st)]
    return f


def m_next(I, st, fn, ce, args, line, depth, dest_ty, may_unwind):
    a = args[0]
    if a[0] != "ref":
        return None
    it = I.load(st, a[1])
    if not is_iter(it):
        return None
    out = []
    for tag, ni, item, s in nexts(I, st, it, fn, line, depth):
        if tag == "item":
            I.store(s, a[1], ni)
            out.append(("ret", _opt(1, [item]), s))
        elif tag == "done":
            if ni is not None:
                I.store(s, a[1], ni)
            out.append(("ret", _opt(0, []), s))
        else:
            out.append((tag, None, s))
    return out


def _drain(I, st, it, fn, line, depth, on_item):
    """consume an iterator; on_item(state, item) -> list of ('go'|'stop', value, state) | ('unwind', None, state);
    returns list of (kind, value, state) where kind in ret-done / ret-stop / unwind / cut"""
    outs = []
    work = [(it, st, 0)]
    while work:
        cur, s0, steps = work.pop()
        if steps > 12:
            outs.append(("cut", "iterator drain bound", s0))
            continue
        for tag, ni, item, s in nexts(I, s0, cur, fn, line, depth):
            if tag == "done":
                outs.append(("done", None, s))
            elif tag == "item":
                for verdict, val, s2 in on_item(s, item):
                    if verdict == "go":
                        work.append((ni, s2, steps + 1))
                    elif verdict == "stop":
                        outs.append(("stop", val, s2))
                    else:
                        outs.append((verdict, val, s2))
            else:
                outs.append((tag, None, s))
    return outs


def m_for_each(I, st, fn, ce, args, line, depth, dest_ty, may_unwind):
    it = args[0]
    if not is_iter(it):
        return interp.m_for_each_opaque(I, st, fn, ce, args, line, depth, dest_ty, may_unwind)

    def on_item(s, item):
        r = []
        for kind, val, s2 in I.call_value(s, args[1], [item], fn, line, depth, None, may_unwind):
            r.append(("go", None, s2) if kind == "ret" else (kind, val, s2))
        return r
    out = []
    for kind, val, s in _drain(I, st, it, fn, line, depth, on_item):
        out.append(("ret", UNIT, s) if kind in ("done", "stop") else (kind, val, s))
    return out


def m_count(I, st, fn, ce, args, line, depth, dest_ty, may_unwind):
    it = args[0]
    if not is_iter(it):
        return None
    # count by threading a counter through the drain
    outs = []
    work = [(it, st, 0)]
    while work:
        cur, s0, n = work.pop()
        if n > 12:
            outs.append(("cut", "count bound", s0))
            continue
        for tag, ni, item, s in nexts(I, s0, cur, fn, line, depth):
            if tag == "done":
                outs.append(("ret", Const(n), s))
            elif tag == "item":
                work.append((ni, s, n + 1))
            else:
                outs.append((tag, None, s))
    return outs


def m_all_any(is_all):
    def f(I, st, fn, ce, args, line, depth, dest_ty, may_unwind):
        it = args[0]
        if it[0] == "ref":
            it = I.load(st, it[1])
        if not is_iter(it):
            return None

        def on_item(s, item):
            r = []
            for verdict, s2 in _call_pred(I, s, args[1], item, fn, line, depth):
                if verdict in ("true", "false"):
                    b = verdict == "true"
                    if b == is_all:
                        r.append(("go", None, s2))
                    else:
                        r.append(("stop", Const(not is_all), s2))
                else:
                    r.append((verdict, None, s2))
            return r
        out = []
        for kind, val, s in _drain(I, st, it, fn, line, depth, on_item):
            if kind == "done":
                out.append(("ret", Const(is_all), s))
            elif kind == "stop":
                out.append(("ret", val, s))
            else:
                out.append((kind, val, s))
        return out
    return f


def m_index(I, st, fn, ce, args, line, depth, dest_ty, may_unwind):
    v = as_view(I, st, args[0])
    if v is None:
        return None
    lid, lo, hi = v[2], v[4][0][1], v[4][1][1]
    ix = args[1]
    if ix[0] == "const" and isinstance(ix[1], int):
        k = lo + ix[1]
        if k >= hi:
            I.emit(st, {"k": "PANIC", "what": "index out of bounds"}, fn, line)
            return [("unwind", None, st)]
        return [("ret", Ref(elem_loc(lid, k)), st)]
    if ix[0] == "agg" and len(ix[4]) == 2 and all(x[0] == "const" for x in ix[4]) and \
            (ix[2].endswith("::Range") or ix[2].endswith("::RangeInclusive")):
        a, b = ix[4][0][1], ix[4][1][1]
        if ix[2].endswith("RangeInclusive"):
            b += 1
        if a > b or lo + b > hi:
            I.emit(st, {"k": "PANIC", "what": "slice index out of range %d..%d of %d" % (a, b, hi - lo)}, fn, line)
            return [("unwind", None, st)]
        return [("ret", view(lid, lo + a, lo + b), st)]
    if ix[0] == "agg" and ix[2].endswith("::RangeToInclusive") and len(ix[4]) == 1 and ix[4][0][0] == "const":
        b = ix[4][0][1] + 1
        if lo + b > hi:
            I.emit(st, {"k": "PANIC", "what": "slice index out of range"}, fn, line)
            return [("unwind", None, st)]
        return [("ret", view(lid, lo, lo + b), st)]
    if ix[0] == "agg" and ix[2].endswith("::RangeFull"):
        return [("ret", view(lid, lo, hi), st)]
    if ix[0] == "agg" and ix[2].endswith("::RangeTo") and len(ix[4]) == 1 and ix[4][0][0] == "const":
        b = ix[4][0][1]
        if lo + b > hi:
            I.emit(st, {"k": "PANIC", "what": "slice index out of range"}, fn, line)
            return [("unwind", None, st)]
        return [("ret", view(lid, lo, lo + b), st)]
    if ix[0] == "agg" and ix[2].endswith("::RangeFrom") and len(ix[4]) == 1 and ix[4][0][0] == "const":
        a = ix[4][0][1]
        if lo + a > hi:
            I.emit(st, {"k": "PANIC", "what": "slice index out of range"}, fn, line)
            return [("unwind", None, st)]
        return [("ret", view(lid, lo + a, hi), st)]
    raise Undecided("index of a modelled list with %r" % (ix,))


def m_slice_get(I, st, fn, ce, args, line, depth, dest_ty, may_unwind):
    """`slice.get(i)` / `get_mut(i)` / `first()` / `last()`: Some(&elem) inside the bounds, None outside (never panics)"""
    v = as_view(I, st, args[0])
    if v is None:
        return None
    lid, lo, hi = v[2], v[4][0][1], v[4][1][1]
    nm = ce["def"].split("::")[-1]
    if nm in ("first", "first_mut"):
        k = lo
    elif nm in ("last", "last_mut"):
        k = hi - 1
    else:
        ix = args[1]
        if not (ix[0] == "const" and isinstance(ix[1], int) and not isinstance(ix[1], bool)):
            if ix[0] == "agg":
                # a range: like indexing, but out of range gives None
                try:
                    r = m_index(I, st.fork(), fn, ce, args, line, depth, dest_ty, may_unwind)
                except Undecided:
                    return None
                return [("ret", _opt(1, [val]), s2) if kind == "ret" else ("ret", _opt(0, []), st) for kind, val, s2 in r]
            return None
        k = lo + ix[1]
    if k < lo or k >= hi:
        return [("ret", _opt(0, []), st)]
    return [("ret", _opt(1, [Ref(elem_loc(lid, k))]), st)]


def m_is_empty(I, st, fn, ce, args, line, depth, dest_ty, may_unwind):
    v = as_view(I, st, args[0])
    if v is None:
        return None
    return [("ret", Const(v[4][0][1] == v[4][1][1]), st)]


def m_len(I, st, fn, ce, args, line, depth, dest_ty, may_unwind):
    v = as_view(I, st, args[0])
    if v is None:
        return None
    return [("ret", Const(v[4][1][1] - v[4][0][1]), st)]


# ---- growable vectors, collect, sort, sets, addresses -----------------------------------------------------------------
def items_of(I, st, v):
    lid, lo, hi = v[2], v[4][0][1], v[4][1][1]
    return [I.load(st, elem_loc(lid, k)) for k in range(lo, hi)]


def make_list(I, st, items, elem_ty=None):
    """a fresh modelled list holding `items` (values); returns its view"""
    lid = st.fresh("vec")
    I.lists[lid] = len(items)
    I.oploc[lid] = ("O", lid, ())
    I.optype[lid] = {"k": "slice", "ty": elem_ty or {"k": "other", "s": "?"}, "s": "[?]"}
    for k, x in enumerate(items):
        st.heap[elem_loc(lid, k)] = x
    return view(lid, 0, len(items))


def _vec_at(I, st, a):
    """(location, view) of the modelled vector a `&mut Vec` argument points to, or (None, None)"""
    if a[0] != "ref":
        return None, None
    v = I.load(st, a[1])
    if v[0] == "agg" and v[1] == "slice" and v[2] in I.lists:
        return a[1], v
    return None, None


def m_vec_new(I, st, fn, ce, args, line, depth, dest_ty, may_unwind):
    if not getattr(I, "model_vecs", False):
        return None
    return [("ret", make_list(I, st, []), st)]


def _source_items(I, st, src, fn, line, depth):
    """items of a modelled slice / vector / iterator given as value; None if not modelled.  -> [(items, state)]"""
    v = as_view(I, st, src)
    if v is not None:
        return [(items_of(I, st, v), st)]
    if is_iter(src):
        outs = []
        work = [(src, st, [])]
        while work:
            cur, s0, acc = work.pop()
            if len(acc) > 12:
                raise Undecided("iterator drain bound")
            for tag, ni, item, s in nexts(I, s0, cur, fn, line, depth):
                if tag == "done":
                    outs.append((acc, s))
                elif tag == "item":
                    work.append((ni, s, acc + [item]))
                else:
                    outs.append((None, s, tag))
        return outs
    return None


def _push_event(I, st, vec_arg, item, fn, line, ce):
    ev = I.emit(st, {"k": "CALL", "def": "std::vec::Vec::<T, A>::push", "base": "std::vec::Vec::<T, A>::push",
                     "args": [vec_arg, item], "via": ce["def"]}, fn, line)
    ev["result"] = st.fresh("r")


def m_vec_push(I, st, fn, ce, args, line, depth, dest_ty, may_unwind):
    loc, v = _vec_at(I, st, args[0])
    if v is None:
        return None
    I.store(st, loc, make_list(I, st, items_of(I, st, v) + [args[1]]))
    return [("ret", UNIT, st)]


def m_vec_extend(I, st, fn, ce, args, line, depth, dest_ty, may_unwind):
    src = args[1]
    try:
        got = _source_items(I, st, src, fn, line, depth)
    except Undecided:
        got = None
    if got is None:
        return None
    loc, v = _vec_at(I, st, args[0])
    outs = []
    for g in got:
        if len(g) == 3:
            outs.append((g[2] if g[2] in ("unwind", "cut") else "cut", None, g[1]))
            continue
        items, s = g
        if v is not None:
            cur = I.load(s, loc)
            I.store(s, loc, make_list(I, s, items_of(I, s, cur) + list(items)))
        else:
            # an unmodelled vector (e.g. the caller's out-parameter): record what is appended, element by element
            for x in items:
                _push_event(I, s, args[0], x, fn, line, ce)
        outs.append(("ret", UNIT, s))
    return outs


def m_collect(I, st, fn, ce, args, line, depth, dest_ty, may_unwind):
    if not is_iter(args[0]):
        return None
    if dest_ty is not None and dest_ty.get("k") == "adt" and dest_ty["path"].endswith("::HashSet"):
        try:
            got = _source_items(I, st, args[0], fn, line, depth)
        except Undecided:
            return None
        outs = []
        for g in got:
            if len(g) == 3:
                outs.append((g[2] if g[2] in ("unwind", "cut") else "cut", None, g[1]))
                continue
            keys = []
            for x in g[0]:
                k = x[1] if x[0] == "const" else _addr_or_slot(I, x)
                if k is None:
                    raise Undecided("set element %r has no model address" % (x,))
                if Const(k) not in keys:
                    keys.append(Const(k))
            outs.append(("ret", ("agg", "set", "HashSet", 0, tuple(keys)), g[1]))
        return outs
    if dest_ty is not None and not (dest_ty.get("k") == "adt" and (dest_ty["path"].endswith("::Vec") or dest_ty["path"].endswith("::Box"))):
        return None
    try:
        got = _source_items(I, st, args[0], fn, line, depth)
    except Undecided:
        return None
    outs = []
    for g in got:
        if len(g) == 3:
            outs.append((g[2] if g[2] in ("unwind", "cut") else "cut", None, g[1]))
        else:
            outs.append(("ret", make_list(I, g[1], list(g[0])), g[1]))
    return outs


def addr_of(I, v):
    """the model address of a pointer-like value that designates a modelled list element (or None)"""
    A = getattr(I, "addrs", None)
    if not A:
        return None
    loc = None
    if v[0] == "op":
        loc = I.oploc.get(v[1])
    elif v[0] == "ref":
        loc = v[1]
    if loc is None or loc[0] != "O" or loc[1] not in A or not loc[2]:
        return None
    k = loc[2][0]
    if not (isinstance(k, str) and k.startswith("[") and k[1:-1].isdigit()):
        return None
    if any(p != "*" for p in loc[2][1:]):
        return None
    return A[loc[1]][int(k[1:-1])]


def _addr_or_slot(I, v):
    """address used as a set element: the model address of a leaf, or - for a pointer to a *slot* of some other modelled
    list (`locks.iter()` instead of `into_iter()`: the address of the place holding the reference) - a token unique to that
    slot: all slots are different places, whatever they refer to"""
    a = addr_of(I, v)
    if a is not None:
        return a
    loc = v[1] if v[0] == "ref" else (I.oploc.get(v[1]) if v[0] == "op" else None)
    if loc and loc[0] == "O" and loc[1] in I.lists and len(loc[2]) == 1 and str(loc[2][0]).startswith("["):
        return "slot:%s%s" % (loc[1], loc[2][0])
    return None


def m_sort_by_key(I, st, fn, ce, args, line, depth, dest_ty, may_unwind):
    loc, v = _vec_at(I, st, args[0])
    if v is None:
        v = as_view(I, st, args[0])
        loc = None
    if v is None:
        return None
    lid, lo, hi = v[2], v[4][0][1], v[4][1][1]
    # keys: the closure applied to a reference to each element; all of them must be model addresses / constants
    states = [([], st)]
    for k in range(lo, hi):
        nxt = []
        for keys, s in states:
            for kind, val, s2 in I.call_value(s, args[1], [Ref(elem_loc(lid, k))], fn, line, depth, None, may_unwind):
                if kind != "ret":
                    return None
                key = val[1] if val[0] == "const" and isinstance(val[1], int) else addr_of(I, val)
                if key is None:
                    I.emit(s2, {"k": "SORT_KEY_OPAQUE", "key": val}, fn, line)
                    return None
                nxt.append((keys + [key], s2))
        states = nxt
    outs = []
    for keys, s in states:
        items = items_of(I, s, v)
        order = sorted(range(len(items)), key=lambda i: keys[i])      # stable, ascending: what slice::sort_by_key promises
        nv = make_list(I, s, [items[i] for i in order])
        I.emit(s, {"k": "SORTED", "keys": keys, "def": ce["def"]}, fn, line)
        if loc is not None:
            I.store(s, loc, nv)
        elif args[0][0] == "ref":
            I.store(s, args[0][1], nv)
        outs.append(("ret", UNIT, s))
    return outs


ORDERING = "std::cmp::Ordering"


def _ordering(c):
    return Agg("adt", ORDERING, 0 if c < 0 else (1 if c == 0 else 2), [])


def _scalar_or_addr(I, st, v):
    """a concrete integer or a model address behind a value or a reference to one (or None)"""
    for _ in range(3):
        if v[0] == "const" and isinstance(v[1], int) and not isinstance(v[1], bool):
            return v[1]
        a = addr_of(I, v)
        if a is not None:
            return a
        if v[0] == "ref":
            try:
                v = I.load(st, v[1])
            except Exception:
                return None
        else:
            return None
    return None


def m_ord_cmp(I, st, fn, ce, args, line, depth, dest_ty, may_unwind):
    """`Ord::cmp(&a, &b)` on integers / model addresses (raw pointers, `ptr as usize`)"""
    if len(args) != 2 or args[0][0] != "ref" or args[1][0] != "ref":
        return None
    try:
        a, b = I.load(st, args[0][1]), I.load(st, args[1][1])
    except Exception:
        return None
    x, y = _scalar_or_addr(I, st, a), _scalar_or_addr(I, st, b)
    if x is None or y is None:
        return None
    return [("ret", _ordering((x > y) - (x < y)), st)]


def m_sort_by(I, st, fn, ce, args, line, depth, dest_ty, may_unwind):
    """`sort_by(cmp)` / `sort_unstable_by(cmp)`: a stable insertion sort driven by the comparator, which is interpreted on
    references to the elements and must answer with a literal `Ordering` every time (otherwise the order is unknown)"""
    loc, v = _vec_at(I, st, args[0])
    if v is None:
        v = as_view(I, st, args[0])
        loc = None
    if v is None:
        return None
    lid, lo, hi = v[2], v[4][0][1], v[4][1][1]
    order = list(range(lo, hi))
    s = st

    def cmp(s, i, j):
        outs = I.call_value(s, args[1], [Ref(elem_loc(lid, i)), Ref(elem_loc(lid, j))], fn, line, depth, None, may_unwind)
        rets = [(val, s2) for kind, val, s2 in outs if kind == "ret"]
        if len(outs) != 1 or len(rets) != 1:
            return None, s
        val, s2 = rets[0]
        if val[0] == "agg" and val[2] == ORDERING and isinstance(val[3], int):
            return val[3] - 1, s2
        return None, s2
    for a in range(1, len(order)):
        b = a
        while b > 0:
            c, s = cmp(s, order[b - 1], order[b])
            if c is None:
                I.emit(s, {"k": "SORT_KEY_OPAQUE", "key": "comparator"}, fn, line)
                return None
            if c <= 0:
                break
            order[b - 1], order[b] = order[b], order[b - 1]
            b -= 1
    items = [I.load(s, elem_loc(lid, k)) for k in order]
    nv = make_list(I, s, items)
    I.emit(s, {"k": "SORTED", "keys": None, "def": ce["def"]}, fn, line)
    if loc is not None:
        I.store(s, loc, nv)
    elif args[0][0] == "ref":
        I.store(s, args[0][1], nv)
    return [("ret", UNIT, s)]


def m_to_vec(I, st, fn, ce, args, line, depth, dest_ty, may_unwind):
    v = as_view(I, st, args[0])
    if v is None or not getattr(I, "model_vecs", False):
        return None
    return [("ret", make_list(I, st, items_of(I, st, v)), st)]


def m_dedup_by(I, st, fn, ce, args, line, depth, dest_ty, may_unwind):
    """`Vec::dedup_by(same_bucket)`: `same_bucket(&mut x, &mut last_kept)` decides, with a literal answer, whether x goes"""
    loc, v = _vec_at(I, st, args[0])
    if v is None:
        return None
    lid, lo, hi = v[2], v[4][0][1], v[4][1][1]
    kept = []
    s = st
    for k in range(lo, hi):
        if not kept:
            kept.append(k)
            continue
        outs = I.call_value(s, args[1], [Ref(elem_loc(lid, k)), Ref(elem_loc(lid, kept[-1]))], fn, line, depth, None, may_unwind)
        if len(outs) != 1 or outs[0][0] != "ret":
            return None
        val, s = outs[0][1], outs[0][2]
        if not (val[0] == "const" and isinstance(val[1], bool)):
            return None
        if not val[1]:
            kept.append(k)
    nv = make_list(I, s, [I.load(s, elem_loc(lid, k)) for k in kept])
    I.store(s, loc, nv)
    return [("ret", UNIT, s)]


def m_vec_as_ptr(I, st, fn, ce, args, line, depth, dest_ty, may_unwind):
    """`Vec::as_ptr` / `as_mut_ptr`: the pointer to element 0 is the modelled list itself"""
    v = as_view(I, st, args[0])
    if v is None or not getattr(I, "model_vecs", False):
        return None
    return [("ret", v, st)]


def m_from_raw_parts(I, st, fn, ce, args, line, depth, dest_ty, may_unwind):
    """`Vec::from_raw_parts(ptr, len, cap)` where ptr is the buffer of a modelled list and len is its whole length"""
    v = as_view(I, st, args[0])
    if v is None or not getattr(I, "model_vecs", False):
        return None
    n = args[1]
    if n[0] != "const" or n[1] != v[4][1][1] - v[4][0][1] or v[4][0][1] != 0:
        return None
    return [("ret", v, st)]


# `Try` types the short-circuiting consumers are used with: (path, continue variant, break variant)
_TRY = {"std::ops::ControlFlow": (0, 1), "std::result::Result": (0, 1), "std::option::Option": (1, 0)}


def m_try_for_each(I, st, fn, ce, args, line, depth, dest_ty, may_unwind):
    """`try_for_each(f)`: f runs on each item in turn; the first break/Err/None is the result, otherwise the
    continue/Ok/Some of unit"""
    it = args[0]
    if it[0] == "ref":
        it = I.load(st, it[1])
    if not is_iter(it) or not dest_ty or dest_ty.get("k") != "adt" or dest_ty.get("path") not in _TRY:
        return None
    path = dest_ty["path"]
    cont, brk = _TRY[path]

    def on_item(s, item):
        r = []
        for kind, val, s2 in I.call_value(s, args[1], [item], fn, line, depth, dest_ty, may_unwind):
            if kind != "ret":
                r.append((kind, val, s2))
                continue
            for k, payload, s3 in I.variants_of(s2, val):
                r.append(("go", None, s3) if k == cont else ("stop", val, s3))
        return r
    out = []
    for kind, val, s in _drain(I, st, it, fn, line, depth, on_item):
        if kind == "done":
            out.append(("ret", Agg("adt", path, cont, [UNIT]), s))
        elif kind == "stop":
            out.append(("ret", val, s))
        else:
            out.append((kind, val, s))
    return out


def m_sort_plain(I, st, fn, ce, args, line, depth, dest_ty, may_unwind):
    """`sort()` / `sort_unstable()` of a modelled list of integers / model addresses"""
    loc, v = _vec_at(I, st, args[0])
    if v is None:
        v = as_view(I, st, args[0])
        loc = None
    if v is None:
        return None
    items = items_of(I, st, v)
    keys = [_scalar_or_addr(I, st, x) for x in items]
    if any(k is None for k in keys):
        I.emit(st, {"k": "SORT_KEY_OPAQUE", "key": "element"}, fn, line)
        return None
    order = sorted(range(len(items)), key=lambda i: keys[i])
    nv = make_list(I, st, [items[i] for i in order])
    I.emit(st, {"k": "SORTED", "keys": keys, "def": ce["def"]}, fn, line)
    if loc is not None:
        I.store(st, loc, nv)
    elif args[0][0] == "ref":
        I.store(st, args[0][1], nv)
    return [("ret", UNIT, st)]


def m_dedup(I, st, fn, ce, args, line, depth, dest_ty, may_unwind):
    """`Vec::dedup()` on integers / model addresses"""
    loc, v = _vec_at(I, st, args[0])
    if v is None:
        return None
    items = items_of(I, st, v)
    keys = [_scalar_or_addr(I, st, x) for x in items]
    if any(k is None for k in keys):
        return None
    kept = [i for i in range(len(items)) if i == 0 or keys[i] != keys[i - 1]]
    I.store(st, loc, make_list(I, st, [items[i] for i in kept]))
    return [("ret", UNIT, st)]


def m_windows(I, st, fn, ce, args, line, depth, dest_ty, may_unwind):
    v = as_view(I, st, args[0])
    if v is None or args[1][0] != "const":
        return None
    return [("ret", _iter("windows", [v, args[1], v[4][0]]), st)]


def m_zip(I, st, fn, ce, args, line, depth, dest_ty, may_unwind):
    a, b = args[0], args[1]
    vb = as_view(I, st, b)
    if vb is not None:
        b = _iter("ref", [vb, vb[4][0]])
    if not (is_iter(a) and is_iter(b)):
        return None
    return [("ret", _iter("zip", [a, b]), st)]


def m_box_deref(I, st, fn, ce, args, line, depth, dest_ty, may_unwind):
    """`&Box<[T]>` -> `&[T]` for a modelled boxed slice; anything else keeps its ordinary treatment"""
    if as_view(I, st, args[0]) is not None:
        return [("ret", args[0], st)]
    return None


def m_cow_deref(I, st, fn, ce, args, line, depth, dest_ty, may_unwind):
    """`&Cow<[T]>` -> `&[T]`: the borrowed slice, or the owned vector seen as a slice"""
    a = args[0]
    if a[0] != "ref":
        return None
    try:
        v = I.load(st, a[1])
    except Undecided:
        return None
    if not (v[0] == "agg" and v[1] == "adt" and str(v[2]).endswith("::Cow") and v[4]):
        return None
    inner = v[4][0]
    if as_view(I, st, inner) is not None:
        return [("ret", inner if inner[0] == "ref" or v[3] == 0 else as_view(I, st, inner), st)]
    if v[3] == 0:
        return [("ret", inner, st)]
    return [("ret", Ref(I.add_proj(a[1], 0)), st)]


def m_set_new(I, st, fn, ce, args, line, depth, dest_ty, may_unwind):
    if not getattr(I, "model_vecs", False):
        return None
    return [("ret", ("agg", "set", "HashSet", 0, ()), st)]


def m_set_insert(I, st, fn, ce, args, line, depth, dest_ty, may_unwind):
    if args[0][0] != "ref":
        return None
    sv = I.load(st, args[0][1])
    if not (sv[0] == "agg" and sv[1] == "set"):
        return None
    x = args[1]
    key = x[1] if x[0] == "const" else _addr_or_slot(I, x)
    if key is None:
        raise Undecided("set element %r has no model address" % (x,))
    I.emit(st, {"k": "SET_INSERT", "key": key}, fn, line)
    if Const(key) in sv[4]:
        return [("ret", Const(False), st)]
    I.store(st, args[0][1], ("agg", "set", "HashSet", 0, sv[4] + (Const(key),)))
    return [("ret", Const(True), st)]


def m_set_contains(I, st, fn, ce, args, line, depth, dest_ty, may_unwind):
    if args[0][0] != "ref":
        return None
    sv = I.load(st, args[0][1])
    if not (sv[0] == "agg" and sv[1] == "set"):
        return None
    x = args[1]
    if x[0] == "ref":
        x = I.load(st, x[1])
    key = x[1] if x[0] == "const" else _addr_or_slot(I, x)
    if key is None:
        raise Undecided("set element %r has no model address" % (x,))
    return [("ret", Const(Const(key) in sv[4]), st)]


def m_ptr_eq(I, st, fn, ce, args, line, depth, dest_ty, may_unwind):
    targs = [t for t in ce.get("args", []) if isinstance(t, dict) and t.get("k") not in ("region", "const")]
    if ce["def"].endswith("ptr::eq") and targs and targs[0].get("k") in ("dyn", "slice", "str"):
        return None      # wide-pointer equality also compares the vtable / length: not an address comparison
    a, b = addr_of(I, args[0]), addr_of(I, args[1])
    if a is None or b is None:
        return None
    return [("ret", Const(a == b), st)]


def m_range_next(I, st, fn, ce, args, line, depth, dest_ty, may_unwind):
    """<Range<usize> as Iterator>::next on a range whose bounds are literals"""
    a = args[0]
    if a[0] != "ref":
        return None
    r = I.load(st, a[1])
    if not (r[0] == "agg" and r[2].endswith("::Range") and len(r[4]) == 2 and all(x[0] == "const" and isinstance(x[1], int) for x in r[4])):
        return None
    lo, hi = r[4][0][1], r[4][1][1]
    if lo >= hi:
        return [("ret", _opt(0, []), st)]
    I.store(st, a[1], ("agg", r[1], r[2], r[3], (Const(lo + 1), r[4][1])))
    return [("ret", _opt(1, [Const(lo)]), st)]


def _arr_len(I, t):
    ln = str(t.get("len", "")).strip()
    n = I.const_params.get(ln)
    if n is None and ln.split("_")[0].isdigit():
        n = int(ln.split("_")[0])
    return n


def m_mu_uninit(I, st, fn, ce, args, line, depth, dest_ty, may_unwind):
    if not getattr(I, "model_vecs", False):
        return None
    # `MaybeUninit::<[X; N]>::uninit()`: one uninitialised array = N uninitialised slots
    targs = [t for t in ce.get("args", []) if isinstance(t, dict) and t.get("k") not in ("region", "const")]
    if targs and targs[0].get("k") == "array":
        n = _arr_len(I, targs[0])
        if n is not None and n <= 8:
            return [("ret", ("agg", "adt", "std::mem::MaybeUninit", 0, (make_list(I, st, [("agg", "adt", "std::mem::MaybeUninit", 0, ())] * n),)), st)]
    return [("ret", ("agg", "adt", "std::mem::MaybeUninit", 0, ()), st)]


def m_mu_as_mut_ptr(I, st, fn, ce, args, line, depth, dest_ty, may_unwind):
    a = args[0]
    if a[0] != "ref":
        return None
    v = I.load(st, a[1])
    if v[0] == "agg" and v[2] == "std::mem::MaybeUninit" and v[4] and as_view(I, st, v[4][0]) is not None:
        return [("ret", v[4][0], st)]          # pointer to the array == the modelled list (its first element is element 0)
    return None


def m_ptr_add(I, st, fn, ce, args, line, depth, dest_ty, may_unwind):
    v = as_view(I, st, args[0])
    if v is None or args[1][0] != "const" or not isinstance(args[1][1], int):
        return None
    lid, lo, hi = v[2], v[4][0][1], v[4][1][1]
    k = lo + args[1][1]
    if k > hi:
        raise Undecided("pointer moved past the end of a modelled array")
    return [("ret", view(lid, k, hi), st)]


def m_ptr_write(I, st, fn, ce, args, line, depth, dest_ty, may_unwind):
    """`ptr.write(v)` / `ptr::write(ptr, v)` where ptr designates an element of a modelled array"""
    a = args[0]
    loc = None
    v = as_view(I, st, a)
    if v is not None and v[4][0][1] < v[4][1][1]:
        loc = elem_loc(v[2], v[4][0][1])
    elif a[0] == "ref" and a[1][0] == "O" and a[1][1] in I.lists:
        loc = a[1]
    if loc is None or not getattr(I, "model_vecs", False):
        return None
    I.emit(st, {"k": "SLOT_WRITE", "slot": loc_s(loc), "val": args[1]}, fn, line)
    st.heap[loc] = ("agg", "adt", "std::mem::MaybeUninit", 0, (args[1],))
    return [("ret", UNIT, st)]


def m_mu_write(I, st, fn, ce, args, line, depth, dest_ty, may_unwind):
    a = args[0]
    if not getattr(I, "model_vecs", False) or a[0] != "ref":
        return None
    loc = a[1]
    if not (loc[0] == "O" and loc[1] in I.lists):
        return None
    I.emit(st, {"k": "SLOT_WRITE", "slot": loc_s(loc), "val": args[1]}, fn, line)
    st.heap[loc] = ("agg", "adt", "std::mem::MaybeUninit", 0, (args[1],))
    return [("ret", Ref(loc), st)]


def m_mu_assume_init(I, st, fn, ce, args, line, depth, dest_ty, may_unwind):
    v = args[0]
    if v[0] == "agg" and v[2] == "std::mem::MaybeUninit" and v[4] and as_view(I, st, v[4][0]) is not None:
        # a whole array initialised slot by slot through pointers: every slot must have been written
        vw = as_view(I, st, v[4][0])
        items = items_of(I, st, vw)
        out = []
        for x in items:
            if x[0] == "agg" and x[2] == "std::mem::MaybeUninit":
                if not x[4]:
                    I.emit(st, {"k": "ASSUME_INIT_UNINIT"}, fn, line)
                    out.append(interp.UNINIT)
                else:
                    out.append(x[4][0])
            else:
                out.append(x)
        return [("ret", make_list(I, st, out), st)]
    if v[0] == "agg" and v[2] == "std::mem::MaybeUninit":
        if not v[4]:
            if dest_ty is not None and dest_ty.get("k") == "array" and getattr(I, "model_vecs", False):
                # `MaybeUninit::<[MaybeUninit<X>; N]>::uninit().assume_init()`: an array of N uninitialised slots
                ln = str(dest_ty.get("len", "")).strip()
                n = I.const_params.get(ln)
                if n is None and ln.split("_")[0].isdigit():
                    n = int(ln.split("_")[0])
                if n is not None and n <= 8:
                    return [("ret", make_list(I, st, [("agg", "adt", "std::mem::MaybeUninit", 0, ())] * n), st)]
            I.emit(st, {"k": "ASSUME_INIT_UNINIT"}, fn, line)
            return [("ret", interp.UNINIT, st)]
        return [("ret", v[4][0], st)]
    return None


def m_array_map(I, st, fn, ce, args, line, depth, dest_ty, may_unwind):
    v = as_view(I, st, args[0])
    if v is None:
        return None
    states = [([], st)]
    outs = []
    for x in items_of(I, st, v):
        nxt = []
        for acc, s in states:
            for kind, val, s2 in I.call_value(s, args[1], [x], fn, line, depth, None, may_unwind):
                if kind == "ret":
                    nxt.append((acc + [val], s2))
                else:
                    outs.append((kind, val, s2))
        states = nxt
    return outs + [("ret", make_list(I, s, acc), s) for acc, s in states]


def m_array_from_fn(I, st, fn, ce, args, line, depth, dest_ty, may_unwind):
    """`core::array::from_fn(f)`: f(0), f(1), .. f(N-1) in ascending order"""
    if not getattr(I, "model_vecs", False) or dest_ty is None or dest_ty.get("k") != "array":
        return None
    n = _arr_len(I, dest_ty)
    if n is None or n > 8:
        return None
    states = [([], st)]
    outs = []
    for i in range(n):
        nxt = []
        for acc, s in states:
            for kind, val, s2 in I.call_value(s, args[0], [Const(i)], fn, line, depth, None, may_unwind):
                if kind == "ret":
                    nxt.append((acc + [val], s2))
                else:
                    outs.append((kind, val, s2))     # the closure unwound: the elements built so far are dropped by std
        states = nxt
    return outs + [("ret", make_list(I, s, acc), s) for acc, s in states]


def m_mu_new(I, st, fn, ce, args, line, depth, dest_ty, may_unwind):
    return [("ret", ("agg", "adt", "std::mem::MaybeUninit", 0, (args[0],)), st)]


def m_position(I, st, fn, ce, args, line, depth, dest_ty, may_unwind):
    a = args[0]
    it = I.load(st, a[1]) if a[0] == "ref" else a
    if not is_iter(it):
        return None
    outs = []
    work = [(it, st, 0)]
    while work:
        cur, s0, n = work.pop()
        if n > 12:
            outs.append(("cut", "position bound", s0))
            continue
        for tag, ni, item, s in nexts(I, s0, cur, fn, line, depth):
            if tag == "done":
                outs.append(("ret", _opt(0, []), s))
            elif tag == "item":
                for verdict, s2 in _call_pred(I, s, args[1], item, fn, line, depth):
                    if verdict == "true":
                        if a[0] == "ref":
                            I.store(s2, a[1], ni)
                        outs.append(("ret", _opt(1, [Const(n)]), s2))
                    elif verdict == "false":
                        work.append((ni, s2, n + 1))
                    else:
                        outs.append((verdict, None, s2))
            else:
                outs.append((tag, None, s))
    return outs


def m_split_at(I, st, fn, ce, args, line, depth, dest_ty, may_unwind):
    v = as_view(I, st, args[0])
    if v is None or args[1][0] != "const" or not isinstance(args[1][1], int):
        return None
    lid, lo, hi = v[2], v[4][0][1], v[4][1][1]
    k = args[1][1]
    if lo + k > hi:
        I.emit(st, {"k": "PANIC", "what": "split_at out of range"}, fn, line)
        return [("unwind", None, st)]
    return [("ret", Agg("tuple", "", 0, [view(lid, lo, lo + k), view(lid, lo + k, hi)]), st)]


def m_split_first(I, st, fn, ce, args, line, depth, dest_ty, may_unwind):
    v = as_view(I, st, args[0])
    if v is None:
        return None
    lid, lo, hi = v[2], v[4][0][1], v[4][1][1]
    if lo >= hi:
        return [("ret", _opt(0, []), st)]
    return [("ret", _opt(1, [Agg("tuple", "", 0, [Ref(elem_loc(lid, lo)), view(lid, lo + 1, hi)])]), st)]


def m_set_len(I, st, fn, ce, args, line, depth, dest_ty, may_unwind):
    a = args[0]
    sv = I.load(st, a[1]) if a[0] == "ref" else a
    if not (sv[0] == "agg" and sv[1] == "set"):
        return None
    return [("ret", Const(len(sv[4])), st)]


def iter_len(it):
    kind = it[2]
    if kind in ("ref", "val"):
        v, pos = it[4]
        return max(0, v[4][1][1] - pos[1])
    if kind.startswith("rev:"):
        return max(0, it[4][2][1] - it[4][1][1])
    if kind in ("enumerate", "map", "inspect"):
        return iter_len(it[4][0])
    if kind == "take":
        n = iter_len(it[4][0])
        return None if n is None else min(n, it[4][1][1])
    if kind == "zip":
        a, b = iter_len(it[4][0]), iter_len(it[4][1])
        return None if a is None or b is None else min(a, b)
    if kind == "windows":
        v, k, pos = it[4]
        return max(0, v[4][1][1] - pos[1] - k[1] + 1)
    return None


def m_iter_len(I, st, fn, ce, args, line, depth, dest_ty, may_unwind):
    it = args[0]
    if it[0] == "ref":
        it = I.load(st, it[1])
    if not is_iter(it):
        return None
    n = iter_len(it)
    if n is None:
        return None
    return [("ret", Const(n), st)]


def m_find(I, st, fn, ce, args, line, depth, dest_ty, may_unwind):
    a = args[0]
    it = I.load(st, a[1]) if a[0] == "ref" else a
    if not is_iter(it):
        return None

    def on_item(s, item):
        r = []
        for verdict, s2 in _call_pred(I, s, args[1], _tmp_ref(s, item), fn, line, depth):
            if verdict == "true":
                r.append(("stop", item, s2))
            elif verdict == "false":
                r.append(("go", None, s2))
            else:
                r.append((verdict, None, s2))
        return r
    out = []
    for kind, val, s in _drain(I, st, it, fn, line, depth, on_item):
        if kind == "done":
            out.append(("ret", _opt(0, []), s))
        elif kind == "stop":
            out.append(("ret", _opt(1, [val]), s))
        else:
            out.append((kind, val, s))
    return out


def _range_as_iter(I, st, v):
    """a `lo..hi` with literal bounds (by value or behind `&mut`) as a model iterator; anything else unchanged"""
    w = v
    if w[0] == "ref":
        try:
            w = I.load(st, w[1])
        except Undecided:
            return v
    if w[0] == "agg" and w[1] == "adt" and str(w[2]).endswith("::Range") and len(w[4]) == 2 and \
            all(x[0] == "const" and isinstance(x[1], int) and not isinstance(x[1], bool) for x in w[4]):
        return _iter("range", [w[4][0], w[4][1]])
    if w[0] == "agg" and w[1] == "adt" and w[2] in I.F.adts and _local_next(I, w[2]) is not None:
        return _iter("local", [w])      # a crate-local type with its own Iterator impl: driven through its `next`
    return v


def _local_next(I, adt_path):
    try:
        return I.resolve_local_impl("std::iter::Iterator", "next", [{"k": "adt", "path": adt_path, "args": [], "s": adt_path}])
    except Exception:
        return None


def _with_ranges(f):
    def g(I, st, fn, ce, args, line, depth, dest_ty, may_unwind):
        if args:
            a0 = _range_as_iter(I, st, args[0])
            if a0 is not args[0]:
                args = [a0] + list(args[1:])
        return f(I, st, fn, ce, args, line, depth, dest_ty, may_unwind)
    return g


def install():
    M = MODELS
    M["core::slice::<impl [T]>::iter"] = m_iter(False)
    M["core::slice::iter::<impl std::iter::IntoIterator for &'a [T]>::into_iter"] = m_iter(False)
    M["<&'a std::vec::Vec<T, A> as std::iter::IntoIterator>::into_iter"] = m_iter(False)
    M["<std::vec::Vec<T, A> as std::iter::IntoIterator>::into_iter"] = m_iter(True)
    M["std::iter::IntoIterator::into_iter"] = m_into_iter_any
    M["std::iter::Iterator::next"] = m_next
    M["std::iter::Iterator::enumerate"] = m_enumerate
    M["std::iter::Iterator::take"] = m_take
    M["std::iter::Iterator::skip"] = m_skip
    M["std::iter::Iterator::rev"] = m_rev
    M["std::iter::Iterator::copied"] = m_copied
    M["std::iter::Iterator::cloned"] = m_copied
    M["std::iter::Iterator::take_while"] = m_lazy("take_while")
    M["std::iter::Iterator::filter"] = m_lazy("filter")
    M["std::iter::Iterator::inspect"] = m_lazy("inspect")
    M["std::iter::Iterator::map"] = m_lazy("map")
    M["std::iter::Iterator::zip"] = m_zip
    M["std::iter::Iterator::find"] = m_find
    M["std::iter::Iterator::position"] = m_position
    for nm in ("get", "get_mut", "first", "first_mut", "last", "last_mut"):
        M["core::slice::<impl [T]>::" + nm] = m_slice_get
        M["std::slice::<impl [T]>::" + nm] = m_slice_get
    M["core::slice::<impl [T]>::split_at"] = m_split_at
    M["core::slice::<impl [T]>::split_first"] = m_split_first
    M["std::collections::HashSet::<T, S, A>::len"] = m_set_len
    M["std::collections::HashSet::<T, S>::len"] = m_set_len
    M["std::iter::Iterator::collect"] = m_collect
    M["core::slice::<impl [T]>::windows"] = m_windows
    M["core::slice::<impl [T]>::iter_mut"] = m_iter(False)
    M["<&'a mut std::vec::Vec<T, A> as std::iter::IntoIterator>::into_iter"] = m_iter(False)
    M["core::slice::iter::<impl std::iter::IntoIterator for &'a mut [T]>::into_iter"] = m_iter(False)
    M["std::vec::Vec::<T>::new"] = m_vec_new
    M["std::vec::Vec::<T>::with_capacity"] = m_vec_new
    M["std::vec::Vec::<T, A>::push"] = m_vec_push
    M["std::vec::Vec::<T, A>::extend_from_slice"] = m_vec_extend
    M["<std::vec::Vec<T, A> as std::iter::Extend<T>>::extend"] = m_vec_extend
    M["<std::vec::Vec<T, A> as std::iter::Extend<&'a T>>::extend"] = m_vec_extend
    M["std::iter::Extend::extend"] = m_vec_extend
    M["std::vec::Vec::<T, A>::into_boxed_slice"] = interp.m_identity
    M["std::vec::Vec::<T, A>::as_slice"] = interp.m_identity
    M["std::vec::Vec::<T, A>::as_mut_slice"] = interp.m_identity
    M["core::slice::<impl [T]>::into_vec"] = interp.m_identity
    M["std::slice::<impl [T]>::into_vec"] = interp.m_identity
    M["alloc::slice::<impl [T]>::into_vec"] = interp.m_identity
    M["<std::boxed::Box<T, A> as std::ops::Deref>::deref"] = m_box_deref
    M["<std::boxed::Box<T, A> as std::ops::DerefMut>::deref_mut"] = m_box_deref
    M["<std::borrow::Cow<'_, B> as std::ops::Deref>::deref"] = m_cow_deref
    M["<std::sync::Arc<T, A> as std::ops::Deref>::deref"] = interp.m_rc_deref
    M["<std::rc::Rc<T, A> as std::ops::Deref>::deref"] = interp.m_rc_deref
    for nm in ("sort_by_key", "sort_unstable_by_key", "sort_by_cached_key"):
        M["core::slice::<impl [T]>::" + nm] = m_sort_by_key
        M["std::slice::<impl [T]>::" + nm] = m_sort_by_key
    for nm in ("sort_by", "sort_unstable_by"):
        M["core::slice::<impl [T]>::" + nm] = m_sort_by
        M["std::slice::<impl [T]>::" + nm] = m_sort_by
    M["std::cmp::Ord::cmp"] = m_ord_cmp
    for nm in ("sort", "sort_unstable"):
        M["core::slice::<impl [T]>::" + nm] = m_sort_plain
        M["std::slice::<impl [T]>::" + nm] = m_sort_plain
    M["std::vec::Vec::<T, A>::dedup"] = m_dedup
    M["std::iter::Iterator::try_for_each"] = m_try_for_each
    M["core::slice::<impl [T]>::to_vec"] = m_to_vec
    M["std::slice::<impl [T]>::to_vec"] = m_to_vec
    M["std::vec::Vec::<T, A>::dedup_by"] = m_dedup_by
    M["std::vec::Vec::<T, A>::as_mut_ptr"] = m_vec_as_ptr
    M["std::vec::Vec::<T, A>::as_ptr"] = m_vec_as_ptr
    M["std::vec::Vec::<T>::from_raw_parts"] = m_from_raw_parts
    M["<std::ops::Range<usize> as std::iter::Iterator>::next"] = m_range_next
    M["std::iter::range::<impl std::iter::Iterator for std::ops::Range<A>>::next"] = m_range_next
    M["std::mem::MaybeUninit::<T>::uninit"] = m_mu_uninit
    M["std::mem::MaybeUninit::<T>::write"] = m_mu_write
    M["std::mem::MaybeUninit::<T>::as_mut_ptr"] = m_mu_as_mut_ptr
    M["std::ptr::mut_ptr::<impl *mut T>::add"] = m_ptr_add
    M["std::ptr::mut_ptr::<impl *mut T>::write"] = m_ptr_write
    M["std::ptr::write"] = m_ptr_write
    M["std::mem::MaybeUninit::<T>::assume_init"] = m_mu_assume_init
    M["std::array::from_fn"] = m_array_from_fn
    M["core::array::from_fn"] = m_array_from_fn
    M["std::mem::MaybeUninit::<T>::new"] = m_mu_new
    M["std::array::<impl [T; N]>::map"] = m_array_map
    M["core::array::<impl [T; N]>::map"] = m_array_map
    M["std::iter::ExactSizeIterator::len"] = m_iter_len
    M["std::collections::HashSet::<T>::with_capacity"] = m_set_new
    M["std::collections::HashSet::<T, S, A>::insert"] = m_set_insert
    M["std::collections::HashSet::<T, S, A>::contains"] = m_set_contains
    M["std::collections::HashSet::<T>::new"] = m_set_new
    M["std::collections::HashSet::<T, S>::insert"] = m_set_insert
    M["std::collections::HashSet::<T, S>::contains"] = m_set_contains
    M["std::collections::HashSet::<T, S>::reserve"] = lambda *a, **k: None
    M["std::ptr::eq"] = m_ptr_eq
    M["std::ptr::addr_eq"] = m_ptr_eq
    M["std::iter::Iterator::count"] = m_count
    M["std::iter::Iterator::all"] = m_all_any(True)
    M["std::iter::Iterator::any"] = m_all_any(False)
    M["std::iter::Iterator::for_each"] = m_for_each
    for n in ("std::slice::Iter<'a, T>", "std::vec::IntoIter<T, A>", "std::iter::Enumerate<I>", "std::iter::Take<I>",
              "std::iter::Rev<I>", "std::iter::Copied<I>", "std::iter::Cloned<I>", "std::iter::TakeWhile<I, P>",
              "std::iter::Filter<I, P>", "std::iter::Inspect<I, F>", "std::iter::Skip<I>", "std::iter::Zip<A, B>",
              "std::iter::Map<I, F>", "std::slice::Windows<'a, T>", "std::slice::IterMut<'a, T>"):
        M["<%s as std::iter::Iterator>::next" % n] = m_next
        M["<%s as std::iter::Iterator>::for_each" % n] = m_for_each
        M["<%s as std::iter::Iterator>::count" % n] = m_count
        M["<%s as std::iter::Iterator>::all" % n] = m_all_any(True)
        M["<%s as std::iter::Iterator>::any" % n] = m_all_any(False)
        M["<%s as std::iter::Iterator>::find" % n] = m_find
        M["<%s as std::iter::Iterator>::try_for_each" % n] = m_try_for_each
        M["<%s as std::iter::Iterator>::position" % n] = m_position
        M["<%s as std::iter::ExactSizeIterator>::len" % n] = m_iter_len
        M["<%s as std::iter::Iterator>::collect" % n] = m_collect
    M["<std::vec::Vec<T, A> as std::ops::Index<I>>::index"] = m_index
    M["core::slice::index::<impl std::ops::Index<I> for [T]>::index"] = m_index
    M["std::vec::Vec::<T, A>::is_empty"] = m_is_empty
    M["core::slice::<impl [T]>::is_empty"] = m_is_empty
    M["core::slice::<impl [T]>::len"] = m_len
    M["std::vec::Vec::<T, A>::len"] = m_len


install()
for _k in ("std::iter::Iterator::any", "std::iter::Iterator::all", "std::iter::Iterator::for_each", "std::iter::Iterator::find",
           "std::iter::Iterator::position", "std::iter::Iterator::count", "std::iter::Iterator::map", "std::iter::Iterator::filter",
           "std::iter::Iterator::take_while", "std::iter::Iterator::inspect", "std::iter::Iterator::enumerate",
           "std::iter::Iterator::zip", "std::iter::Iterator::collect", "std::iter::Iterator::take", "std::iter::Iterator::skip",
           "std::iter::Iterator::try_for_each"):
    if _k in MODELS:
        MODELS[_k] = _with_ranges(MODELS[_k])
