"""k-bounded list model for the multi-lock algorithms: a lock list is instantiated with a concrete length n and its
elements are the abstract objects LIST.[0] .. LIST.[n-1]; slice/Vec iteration, enumerate, ranges, indexing and
for_each are interpreted on that shape, so loop counters and cursors are literals and the ordinary per-receiver
typestate decides which element is held.  Nothing is executed; lock outcomes stay symbolic."""
import interp
from interp import Agg, Const, Ref, UNIT, Undecided, MODELS, loc_s


def view(lid, lo, hi):
    return ("agg", "slice", lid, 0, (Const(lo), Const(hi)))


def new_list(I, lid, n, elem_ty):
    I.lists[lid] = n
    I.oploc[lid] = ("O", lid, ())
    I.optype[lid] = {"k": "slice", "ty": elem_ty, "s": "[%s]" % elem_ty.get("s", "?")}
    return view(lid, 0, n)


def as_view(I, st, v):
    if v[0] == "ref":
        v = I.load(st, v[1])
    if v[0] == "agg" and v[1] == "slice" and v[2] in I.lists:
        return v
    return None


def elem_loc(lid, k):
    return ("O", lid, ("[%d]" % k,))


def _opt(variant, fields):
    return Agg("adt", "std::option::Option", variant, fields)


def _iter(kind, fields):
    return ("agg", "iter", kind, 0, tuple(fields))


def m_iter(by_value):
    def f(I, st, fn, ce, args, line, depth, dest_ty, may_unwind):
        v = as_view(I, st, args[0])
        if v is None:
            if args[0][0] == "agg" and args[0][1] == "iter":
                return [("ret", args[0], st)]
            return None
        return [("ret", _iter("val" if by_value else "ref", [v, v[4][0]]), st)]
    return f


def m_enumerate(I, st, fn, ce, args, line, depth, dest_ty, may_unwind):
    if not (args[0][0] == "agg" and args[0][1] == "iter"):
        return None
    return [("ret", _iter("enumerate", [args[0], Const(0)]), st)]


def m_take(I, st, fn, ce, args, line, depth, dest_ty, may_unwind):
    it = args[0]
    if not (it[0] == "agg" and it[1] == "iter") or args[1][0] != "const":
        return None
    return [("ret", _iter("take", [it, args[1]]), st)]


def m_skip(I, st, fn, ce, args, line, depth, dest_ty, may_unwind):
    it = args[0]
    if not (it[0] == "agg" and it[1] == "iter") or args[1][0] != "const" or it[2] not in ("ref", "val"):
        return None
    v, pos = it[4]
    hi = v[4][1][1]
    return [("ret", _iter(it[2], [v, Const(min(hi, pos[1] + args[1][1]))]), st)]


def m_copied(I, st, fn, ce, args, line, depth, dest_ty, may_unwind):
    it = args[0]
    if not (it[0] == "agg" and it[1] == "iter") or it[2] not in ("ref", "val"):
        return None
    return [("ret", _iter("val", list(it[4])), st)]


def m_rev(I, st, fn, ce, args, line, depth, dest_ty, may_unwind):
    it = args[0]
    if not (it[0] == "agg" and it[1] == "iter") or it[2] not in ("ref", "val"):
        return None
    v, pos = it[4]
    return [("ret", _iter("rev:" + it[2], [v, pos, v[4][1]]), st)]


def _next(I, st, it):
    """returns (new_iter, item or None)"""
    kind = it[2]
    if kind == "take":
        inner, left = it[4]
        if left[1] <= 0:
            return it, None
        ni, item = _next(I, st, inner)
        return _iter("take", [ni, Const(left[1] - 1)]), item
    if kind.startswith("rev:"):
        v, lo, hi = it[4]
        if hi[1] <= lo[1]:
            return it, None
        el = elem_loc(v[2], hi[1] - 1)
        item = Ref(el) if kind == "rev:ref" else I.load(st, el)
        return _iter(kind, [v, lo, Const(hi[1] - 1)]), item
    if kind in ("ref", "val"):
        v, pos = it[4]
        lid, hi = v[2], v[4][1][1]
        p = pos[1]
        if p >= hi:
            return it, None
        el = elem_loc(lid, p)
        item = Ref(el) if kind == "ref" else I.load(st, el)
        return _iter(kind, [v, Const(p + 1)]), item
    if kind == "enumerate":
        inner, cnt = it[4]
        ni, item = _next(I, st, inner)
        if item is None:
            return _iter("enumerate", [ni, cnt]), None
        return _iter("enumerate", [ni, Const(cnt[1] + 1)]), Agg("tuple", "", 0, [cnt, item])
    raise Undecided("iterator kind %s" % kind)


def m_next(I, st, fn, ce, args, line, depth, dest_ty, may_unwind):
    a = args[0]
    if a[0] != "ref":
        return None
    it = I.load(st, a[1])
    if not (it[0] == "agg" and it[1] == "iter"):
        return None
    ni, item = _next(I, st, it)
    I.store(st, a[1], ni)
    if item is None:
        return [("ret", _opt(0, []), st)]
    return [("ret", _opt(1, [item]), st)]


def m_for_each(I, st, fn, ce, args, line, depth, dest_ty, may_unwind):
    it = args[0]
    if not (it[0] == "agg" and it[1] == "iter"):
        return interp.m_for_each_opaque(I, st, fn, ce, args, line, depth, dest_ty, may_unwind)
    outs = []
    cur = [(it, st)]
    while cur:
        nxt = []
        for it, s in cur:
            ni, item = _next(I, s, it)
            if item is None:
                outs.append(("ret", UNIT, s))
                continue
            for kind, val, s2 in I.call_value(s, args[1], [item], fn, line, depth, None, may_unwind):
                if kind == "ret":
                    nxt.append((ni, s2))
                else:
                    outs.append((kind, val, s2))
        cur = nxt
    return outs


def m_index(I, st, fn, ce, args, line, depth, dest_ty, may_unwind):
    v = as_view(I, st, args[0])
    if v is None:
        return None
    lid, lo, hi = v[2], v[4][0][1], v[4][1][1]
    ix = args[1]
    if ix[0] == "const" and isinstance(ix[1], int):
        k = lo + ix[1]
        if k >= hi:
            s2 = st
            I.emit(s2, {"k": "PANIC", "what": "index out of bounds"}, fn, line)
            return [("unwind", None, s2)]
        return [("ret", Ref(elem_loc(lid, k)), st)]
    if ix[0] == "agg" and ix[2].endswith("Range") and len(ix[4]) == 2 and all(x[0] == "const" for x in ix[4]):
        a, b = ix[4][0][1], ix[4][1][1]
        if a > b or lo + b > hi:
            I.emit(st, {"k": "PANIC", "what": "slice index out of range %d..%d of %d" % (a, b, hi - lo)}, fn, line)
            return [("unwind", None, st)]
        return [("ret", view(lid, lo + a, lo + b), st)]
    raise Undecided("index of a modelled list with %r" % (ix,))


def m_is_empty(I, st, fn, ce, args, line, depth, dest_ty, may_unwind):
    v = as_view(I, st, args[0])
    if v is None:
        return None
    return [("ret", Const(v[4][0][1] == v[4][1][1]), st)]


def m_len(I, st, fn, ce, args, line, depth, dest_ty, may_unwind):
    v = as_view(I, st, args[0])
    if v is None:
        return None
    return [("ret", Const(v[4][1][1] - v[4][0][1]), st)]


def install():
    M = MODELS
    M["core::slice::<impl [T]>::iter"] = m_iter(False)
    M["core::slice::iter::<impl std::iter::IntoIterator for &'a [T]>::into_iter"] = m_iter(False)
    M["<&'a std::vec::Vec<T, A> as std::iter::IntoIterator>::into_iter"] = m_iter(False)
    M["<std::vec::Vec<T, A> as std::iter::IntoIterator>::into_iter"] = m_iter(True)
    M["std::iter::Iterator::enumerate"] = m_enumerate
    M["std::iter::Iterator::take"] = m_take
    M["std::iter::Iterator::skip"] = m_skip
    M["std::iter::Iterator::rev"] = m_rev
    M["std::iter::Iterator::copied"] = m_copied
    M["std::iter::Iterator::cloned"] = m_copied
    M["<std::iter::Copied<I> as std::iter::Iterator>::next"] = m_next
    M["<std::iter::Cloned<I> as std::iter::Iterator>::next"] = m_next
    M["<std::iter::Take<I> as std::iter::Iterator>::next"] = m_next
    M["<std::iter::Rev<I> as std::iter::Iterator>::next"] = m_next
    M["std::iter::Iterator::for_each"] = m_for_each
    M["<std::slice::Iter<'a, T> as std::iter::Iterator>::next"] = m_next
    M["<std::vec::IntoIter<T, A> as std::iter::Iterator>::next"] = m_next
    M["<std::iter::Enumerate<I> as std::iter::Iterator>::next"] = m_next
    M["<std::slice::Iter<'a, T> as std::iter::Iterator>::for_each"] = m_for_each
    M["<std::vec::Vec<T, A> as std::ops::Index<I>>::index"] = m_index
    M["core::slice::index::<impl std::ops::Index<I> for [T]>::index"] = m_index
    M["std::vec::Vec::<T, A>::is_empty"] = m_is_empty
    M["core::slice::<impl [T]>::is_empty"] = m_is_empty
    M["core::slice::<impl [T]>::len"] = m_len
    M["std::vec::Vec::<T, A>::len"] = m_len


install()
