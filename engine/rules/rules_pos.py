"""Positional agreement of container impls (P1), MaybeUninit arrays (H3), round trip (H4)."""
from common import RuleResult, Violation
from interp import loc_s
from rules_struct import vid, _calls, _floc

OPS = {"lockable::Lockable": ("guard", "data_mut"), "lockable::Sharable": ("read_guard", "data_ref"),
       "lockable::LockableGetMut": ("get_mut",), "lockable::LockableIntoInner": ("into_inner",)}
ASSUMES = ("guard", "data_mut", "read_guard", "data_ref")


def _member_results(p, opname):
    """{result id: receiver/argument identity} of the per-member operations on a path"""
    out = {}
    if opname in ASSUMES:
        for e in p.ev("ASSUME"):
            if e.get("op") == opname:
                out[e["result"]] = e["recv"]
    else:
        for e in _calls(p):
            if e.get("base", e["def"]).endswith("::" + opname) and e.get("base", "").startswith("lockable::"):
                a = e["argv"][0]
                out[e["result"]] = vid(a)
    return out


def _closure_applies(ctx, cval, opname):
    """closure (or fn item) applies `opname` to its argument and returns the result"""
    if cval[0] == "const" and isinstance(cval[1], tuple) and cval[1][0] == "fn":
        return cval[1][1].endswith("::" + opname), "maps with fn item %s" % cval[1][1]
    if not (cval[0] == "agg" and cval[1] == "closure"):
        return False, "mapping function is not a closure literal"
    cfn = ctx.F.fn_by_id.get(cval[2])
    paths, err, I = ctx.paths(cfn)
    if err:
        return False, err
    for q in paths:
        if q.kind != "ret":
            continue
        mem = _member_results(q, opname)
        if len(mem) != 1:
            return False, "closure performs %d `%s` operations" % (len(mem), opname)
        rid, src = next(iter(mem.items()))
        if src not in ("a2", "op:a2", "a2.*", "op:a2.*"):
            return False, "closure applies `%s` to %s, not to its argument" % (opname, src)
        if not (q.value and q.value[0] == "op" and q.value[1] == rid):
            return False, "closure does not return the member's result"
    return True, None


def check_impl_fn(ctx, imp, f, opname):
    st = imp["self_ty"]
    paths, err, I = ctx.paths(f)
    if err:
        return None, "undecided: " + err
    rets = [p for p in paths if p.kind == "ret"]
    cuts = [p for p in paths if p.kind == "cut"]
    k = st["k"]
    if k == "tuple":
        n = len(st["elems"])
        for p in rets:
            mem = _member_results(p, opname)
            v = p.value
            if not (v and v[0] == "agg" and v[1] == "tuple" and len(v[4]) == n):
                return False, "does not return a %d-tuple" % n
            for i, x in enumerate(v[4]):
                want = ("a1.*.%d" % i, "op:a1.*.%d" % i, "ref:a1.*.%d" % i, "op:a1.%d" % i, "a1.%d" % i)
                if not (x[0] == "op" and mem.get(x[1]) in want):
                    return False, "component %d of the result is `%s` of %s, not of field %d" % (i, opname, mem.get(x[1]) if x[0] == "op" else x, i)
        return True, "tuple/%d positional" % n
    from rules_struct import seq_container_kind
    if seq_container_kind(st):
        return check_seq(ctx, f, st, opname)
    if k == "array":
        return check_array(ctx, f, opname, paths, st["len"])
    # wrappers and leaves: exactly one member op (or a leaf hold/cell access), whose result is what is returned
    for p in rets:
        mem = _member_results(p, opname)
        leaf = [e for e in p.ev("ASSUME") if e.get("op") in ("hold", "cell_mut", "cell_ref")] + p.ev("EXCL_ACCESS")
        if len(mem) == 1:
            rid, src = next(iter(mem.items()))
            own = src.startswith("a1") or src.startswith("op:a1") or src.startswith("ref:a1")
            if not own:
                # the boxed collection re-creates its Box from its own data pointer first
                fr = [e for e in _calls(p) if e["def"].endswith("from_raw") and vid(e["argv"][0]) in ("op:a1.0", "op:a1.*.0")]
                own = any(src.startswith("op:" + e["result"]) for e in fr)
            if not own:
                return False, "delegates to %s, not to its own data" % src
            from rules_ts2 import _count_op
            if _count_op(p.value, rid) != 1:
                return False, "member result is not returned exactly once"
        elif not mem and leaf:
            pass
        elif not mem and opname in ("get_mut", "into_inner") and p.value and (
                (p.value[0] == "ref" and loc_s(p.value[1]).startswith("a1")) or (p.value[0] == "op" and p.value[1].startswith("a1"))):
            pass   # leaf lock: returns its own cell content
        else:
            return False, "performs %d member operations" % len(mem)
    return True, "delegate/leaf"


def check_seq(ctx, f, st, opname):
    """Vec<T>, Box<[T]>, [T; N]: decided on a modelled list of m elements (m = 0, 2, 3; a const generic length is
    instantiated with m): whatever loop / iterator chain / helper builds the result, it must be a sequence of m items
    whose k-th item is `opname` applied to element k, each element used exactly once."""
    from rules_struct import run_on_self_list
    import listmodel
    for m in (0, 2, 3):
        paths, err, I, lid = run_on_self_list(ctx, f, m, model_vecs=True, const_params={"N": m})
        if err:
            return None, "undecided: " + err
        nret = 0
        for p in paths:
            if p.kind == "cut":
                return None, "undecided: loop not resolved on %d elements (%s)" % (m, p.note)
            if p.kind != "ret":
                continue
            nret += 1
            mem = _member_results(p, opname)
            v = p.value
            vw = v if (v and v[0] == "agg" and v[1] == "slice" and v[2] in I.lists) else None
            if vw is None:
                return False, "with %d elements the result is %r, not a sequence built from the members' results" % (m, (v or ())[:3])
            items = listmodel.items_of(I, p.st, vw)
            if len(items) != m:
                return False, "with %d elements the result has %d items" % (m, len(items))
            used = []
            for kk, x in enumerate(items):
                want = ("%s.[%d]" % (lid, kk), "op:%s.[%d]" % (lid, kk), "ref:%s.[%d]" % (lid, kk))
                src = mem.get(x[1]) if x[0] == "op" else None
                if src not in want:
                    return False, "item %d of the result is `%s` of %s, not of element %d" % (kk, opname, src if src else repr(x)[:60], kk)
                used.append(src)
            if len(mem) != m:
                return False, "with %d elements `%s` is applied %d times" % (m, opname, len(mem))
        if nret == 0:
            return False, "never returns on a list of %d elements" % m
    return True, "sequence positional (modelled list, m=0,2,3)"


def check_array(ctx, f, opname, paths, arrlen="N"):
    seen_write = False
    for p in paths:
        mem = _member_results(p, opname)
        for e in _calls(p):
            n = e["def"].split("::")[-1]
            if n not in ("uninit", "assume_init", "into_iter", "iter_mut", "enumerate", "next", "write", "map") and \
                    not (n == opname and e.get("base", "").startswith("lockable::")):
                return False, "uses `%s`" % e["def"]
        writes = [e for e in _calls(p) if e["def"].split("::")[-1] == "write" and "MaybeUninit" in e["def"]]
        nexts = {e["result"]: e for e in _calls(p) if e["def"].split("::")[-1] == "next"}
        for w in writes:
            seen_write = True
            dst = w["args"][0]
            if not (dst[0] == "ref" and dst[1][3] and str(dst[1][3][-1]).startswith("[")):
                return False, "write target is not an indexed element of the local array"
            didx = dst[1][3][-1][1:-1]
            val = w["argv"][1]
            if not (val[0] == "op" and val[1] in mem):
                return False, "written value is not the member's `%s` result" % opname
            src = mem[val[1]]
            # range form: self[i] with the same i ; enumerate form: element .1 of the tuple whose .0 is the index
            if src.endswith("[%s]" % didx) and (src.startswith("a1.*.") or src.startswith("op:a1.*.") or src.startswith("ref:a1.*.")):
                nx = didx.rsplit(".", 1)[0]
                ne = nexts.get(nx)
                if not ne:
                    return False, "index does not come from the loop iterator"
                it = ne["argv"][0]
                if not (it[0] == "agg" and it[2].endswith("Range") and it[4][0] == ("const", 0) and it[4][1] == ("const", arrlen)):
                    return False, "loop range is %r, not 0..N" % (it,)
            elif didx.endswith(".0") and src.replace("op:", "").replace("ref:", "") in (didx[:-2] + ".1", didx[:-2] + ".1.*"):
                nx = didx[:-2].rsplit(".", 1)[0]
                ne = nexts.get(nx)
                if not ne:
                    return False, "index/element pair does not come from the loop iterator"
                byres = {x["result"]: x for x in _calls(p)}
                it = ne["argv"][0]
                chain = []
                while it[0] == "op" and it[1] in byres and len(chain) < 4:
                    chain.append(byres[it[1]]["def"].split("::")[-1])
                    it = byres[it[1]]["argv"][0]
                if chain not in (["enumerate", "iter_mut"], ["enumerate", "into_iter"]) or vid(it) not in ("op:a1", "op:a1.*", "ref:a1.*"):
                    return False, "loop iterates %s over %s (only enumerate over all of self is accepted)" % (chain, vid(it))
            else:
                return False, "element %s is written to slot %s: source and destination index differ" % (src, didx)
        if p.kind == "ret":
            maps = [e for e in _calls(p) if e["def"].split("::")[-1] == "map"]
            if len(maps) != 1:
                return False, "array is finalised %d times" % len(maps)
            cl = maps[0]["args"][1]
            cfn = ctx.F.fn_by_id.get(cl[2]) if cl[0] == "agg" else None
            cp, cerr, _ = ctx.paths(cfn) if cfn else (None, "no closure", None)
            for q in cp or []:
                if q.kind == "ret":
                    ai = [c for c in _calls(q) if c["def"].split("::")[-1] == "assume_init"]
                    if len(ai) != 1 or vid(ai[0]["argv"][0]) != "op:a2" or not (q.value and q.value[1] == ai[0]["result"]):
                        return False, "finalising closure is not exactly `|g| g.assume_init()`"
            if not (p.value and p.value[0] == "op" and p.value[1] == maps[0]["result"]):
                return False, "finalised array is not returned"
    if not seen_write:
        return False, "no element is ever written"
    return True, "array index-agreement"


def rule_P1(ctx, R):
    res = RuleResult("P1", "positional agreement: component k of every guard/data/get_mut/into_inner result of a container is the same "
                           "operation applied to member k (tuples by field, arrays by equal index over 0..N, Vec/Box<[T]> by an "
                           "order-preserving iter-map-collect); wrappers delegate to their data")
    for tr, names in OPS.items():
        for imp in ctx.F.impls_of(tr):
            for it in imp["items"]:
                if it["name"] not in names:
                    continue
                f = ctx.F.fn_by_id.get(it["id"])
                if not f or "mir" not in f:
                    continue
                ok, why = check_impl_fn(ctx, imp, f, it["name"])
                inst = "%s for %s :: %s" % (tr.split("::")[-1], imp["self_ty"]["s"], it["name"])
                if ok is None:
                    res.undecided(f["path"], it["name"], why, *_floc(f))
                elif ok:
                    res.ok(inst + " [" + why + "]")
                else:
                    res.bad(Violation("P1", f["path"], it["name"], "%s: %s" % (inst, why), *_floc(f)), inst)
    res.need(106, "container/wrapper ops")
    return res


def rule_H4(ctx, R):
    res = RuleResult("H4", "round trip: accessors and consumers of locks and collections (child, child_mut, into_child, get_mut, "
                           "into_inner, as_ref, as_mut ...) return exactly their own stored data (nothing substituted, positions by P1)")
    from facts import ty_walk
    from rules_ts2 import _count_op
    n = 0
    for f in ctx.F.fns:
        if "inputs" not in f or f.get("unsafe") or "mir" not in f or "NON-ACQ" not in R.roles(f):
            continue
        imp = ctx.F.impl_of_fn(f)
        if not imp or imp["self_ty"]["k"] != "adt" or imp["self_ty"]["path"] not in R.lock_adts:
            continue
        if not f["inputs"]:
            continue
        t0 = f["inputs"][0]
        base = t0["ty"] if t0["k"] == "ref" else t0
        if not (base["k"] == "adt" and base["path"] == imp["self_ty"]["path"]):
            continue
        params = [a["name"] for a in imp["self_ty"]["args"] if a["k"] == "param"]
        out = f["output"]
        if not any((x["k"] == "param" and x["name"] in params[:1]) or (x["k"] == "alias" and x.get("name") in ("Inner", "Target"))
                   for x in ty_walk(out)):
            continue
        ti = f.get("trait_item") or ""
        if ti.startswith("std::fmt") or ti.startswith("std::iter") or ti.startswith("lockable::Lockable::") or ti.startswith("lockable::Sharable::"):
            continue
        paths, err, I = ctx.paths(f)
        if err:
            res.undecided(f["path"], "analysis", err, *_floc(f))
            continue
        bad = None
        for p in paths:
            if p.kind == "unwind":
                own = [e for e in p.events if e["k"] in ("PANIC", "ASSERT_FAIL")]
                if own:
                    bad = ("can panic on its own (%s) instead of handing back the stored value: the value is lost, and containers that "
                           "convert element by element leak the elements already converted" % (own[-1].get("what") or own[-1]["k"]))
                continue
            if p.kind != "ret" or not p.value:
                continue
            v = p.value
            while v[0] == "agg" and v[1] in ("adt", "wrap") and len(v[4]) == 1 and (v[2].endswith("Result") or v[2].endswith("PoisonError")):
                v = v[4][0]
            okv = False
            # re-wrapped into another collection of the crate (`Owned { data: self.data }`, `Ref { data: self.data, locks:
            # self.locks.clone() }`): judged by the one field whose declared type carries the data parameter
            for _ in range(3):
                if not (v[0] == "agg" and v[1] == "adt" and v[2] in R.lock_adts and v[2] in ctx.F.adts):
                    break
                flds = ctx.F.adts[v[2]]["variants"][0]["fields"]
                carrying = [i for i, fd in enumerate(flds) if i < len(v[4]) and any(x["k"] == "param" for x in ty_walk(fd["ty"]))
                            and v[4][i][0] != "const" and not (v[4][i][0] == "op" and v[4][i][2] and v[4][i][2][0] == "constant")]
                if len(carrying) != 1 or (v[4][carrying[0]][0] == "ref" and v[4][carrying[0]][1][0] == "O" and
                                          not v[4][carrying[0]][1][1].startswith("a")):
                    break
                v = v[4][carrying[0]]
                while v[0] == "agg" and v[1] == "adt" and v[2] == "std::cell::UnsafeCell" and len(v[4]) == 1:
                    v = v[4][0]
            if v[0] == "agg" and v[1] == "adt" and v[2] in R.lock_adts and v[4] and v[4][0][0] == "ref" and v[4][0][1][0] == "O":
                # ... or re-boxed (`Boxed { data: leak(Box::new(self.data)), locks }`): judged by what went into the new box
                cell = v[4][0][1][1]
                lk = next((e for e in _calls(p) if e.get("result") == cell and e["def"].endswith(("leak", "into_raw"))), None)
                bx = next((e for e in _calls(p) if lk and vid(lk["argv"][0]) == "op:" + str(e.get("result")) and
                           e["def"].endswith("Box::<T>::new")), None)
                if bx:
                    v = bx["argv"][0]
                    while v[0] == "agg" and v[1] == "adt" and v[2] == "std::cell::UnsafeCell" and len(v[4]) == 1:
                        v = v[4][0]
            if v[0] == "ref" and v[1][0] == "O" and v[1][1] == "a1":
                okv = True
            elif v[0] == "op" and (v[1] == "a1" or v[1].startswith("a1.")):
                okv = True
            elif v[0] == "op" and not v[2]:
                # content of the Box re-created from the collection's own data pointer
                fr = [e for e in _calls(p) if e["def"].endswith("from_raw") and vid(e["argv"][0]) in ("op:a1.0", "op:a1.*.0")]
                okv = any(v[1].startswith(e["result"] + ".") for e in fr)
            elif (v[0] == "op" and v[2] and v[2][0] == "call") or \
                    (v[0] == "ref" and v[1][0] == "O" and any(e.get("result") == v[1][1] for e in _calls(p))):
                rid = v[1] if v[0] == "op" else v[1][1]      # `&*member_call(..)`: a reborrow of what the member handed out
                ce = next((e for e in _calls(p) if e.get("result") == rid), None)
                src = vid(ce["argv"][0]) if ce else "?"
                own = src.startswith("op:a1") or src.startswith("ref:a1")
                if not own:
                    fr = [e for e in _calls(p) if e["def"].endswith("from_raw") and vid(e["argv"][0]) in ("op:a1.0", "op:a1.*.0")]
                    own = any(src.startswith("op:" + e["result"]) for e in fr)
                base_def = ce.get("base", ce["def"]) if ce else ""
                okv = own and (base_def.startswith("lockable::") or base_def.split("::")[-1] in ("as_ref", "as_mut", "into_inner", "get_mut", "deref", "deref_mut", "into_iter", "index", "index_mut", "borrow", "borrow_mut"))
            if not okv:
                bad = "returns %r, which is not (derived only from) the value stored in self" % (v,)
        if bad:
            res.bad(Violation("H4", f["path"], "round-trip", bad, *_floc(f)))
        else:
            n += 1
            res.ok(f["path"])
    res.need(30, "accessors/consumers")
    return res


def rule_H5(ctx, R):
    res = RuleResult("H5", "what is handed to a collection is kept: a safe function of a lock or collection type that takes a value of a "
                           "user-chosen type by value (the data of `new`/`from`, the iterator of `extend`/`from_iter`) and cannot "
                           "refuse it (it returns neither Option nor Result) never destroys that value, or the iterator made from "
                           "it, on a returning path - it ends up in `self` or in the result")
    from facts import ty_walk
    n = 0
    for f in ctx.F.fns:
        if "inputs" not in f or f.get("unsafe") or "mir" not in f or not f.get("reachable") or f["kind"] == "Closure":
            continue
        imp = ctx.F.impl_of_fn(f)
        if not imp or imp["self_ty"]["k"] != "adt" or imp["self_ty"]["path"] not in R.lock_adts:
            continue
        out = f["output"]
        if out["k"] == "adt" and (out["path"].endswith("::Option") or out["path"].endswith("::Result")):
            continue
        ti = f.get("trait_item") or ""
        if ti.startswith("std::ops::Drop") or ti.startswith("std::fmt"):
            continue
        by_val = [i + 1 for i, t in enumerate(f["inputs"]) if t["k"] in ("param", "alias") and
                  t.get("name") not in R.keyable_params(f) and t.get("name") not in R.fn_params(f)]
        if not by_val:
            continue
        paths, err, I = ctx.paths(f)
        if err:
            res.undecided(f["path"], "analysis", err, *_floc(f))
            continue
        bad = None
        for p in paths:
            if p.kind != "ret":
                continue
            for i in by_val:
                root = "a%d" % i
                derived = {root}
                for e in _calls(p):
                    if e.get("argv") and vid(e["argv"][0]) in ("op:" + root,) and e["def"].split("::")[-1] in ("into_iter", "iter", "into"):
                        derived.add(str(e.get("result")))
                for e in p.events:
                    if e["k"] in ("DROPP", "DROPQ", "MEMDROP") and str(e.get("val")) in derived:
                        bad = "argument %d (%s) is destroyed on a returning path instead of being stored (path: %s)" % (
                            i, f["inputs"][i - 1]["s"], p.trace()[:240])
        if bad:
            res.bad(Violation("H5", f["path"], "stores-argument", bad, *_floc(f)))
        else:
            n += 1
            res.ok(f["path"])
    res.need(8, "by-value consumers of user data")
    return res
