"""Call-graph rules (family `cg`): who may reach / call what."""
from common import RuleResult, Violation
from interp import RAW_TRAITS
from roles import KEY

BLOCKING_RAW = ("lock", "lock_shared", "lock_exclusive", "lock_upgradable")


class CallGraph:
    def __init__(self, ctx):
        F = self.F = ctx.F
        self.succ = {f["id"]: set() for f in F.fns}
        self.sites = {}          # fn id -> list of (callee json, line)
        self.impl_methods = {}   # trait item path -> [fn ids]
        for f in F.fns:
            ti = f.get("trait_item")
            if ti:
                self.impl_methods.setdefault(ti, []).append(f["id"])
        drop_fns = {a["path"]: a["drop_fn"] for a in F.adts.values() if a.get("drop_fn")}
        for f in F.fns:
            m = f.get("mir")
            if not m:
                continue
            fid = f["id"]
            for b in m["blocks"]:
                for s in b["stmts"]:
                    if s["k"] != "assign":
                        continue
                    rv = s["rv"]
                    if rv["k"] == "aggregate" and rv.get("agg") == "closure":
                        self.succ[fid].add(rv["id"])
                    for op in self._operands(rv):
                        if op["k"] == "const" and op["ty"]["k"] == "fndef":
                            self._edge_def(fid, op["ty"]["def"], None)
                t = b["term"]
                if t["k"] in ("call", "tailcall"):
                    ce = t["callee"]
                    self.sites.setdefault(fid, []).append((ce, t.get("line")))
                    if ce["k"] == "fndef":
                        r = ce.get("resolved") if isinstance(ce.get("resolved"), dict) else None
                        if r and r["kind"] in ("Item", "ClosureOnceShim") and r["id"] in self.succ:
                            self.succ[fid].add(r["id"])
                        else:
                            self._edge_def(fid, ce["def"], ce["id"])
                    for a in t["args"]:
                        if a["k"] == "const" and a["ty"]["k"] == "fndef":
                            self._edge_def(fid, a["ty"]["def"], None)
                elif t["k"] == "drop":
                    from facts import ty_walk
                    for x in ty_walk(t["ty"]):
                        if x["k"] == "adt" and x["path"] in drop_fns:
                            for g in F.fn_by_path.get(drop_fns[x["path"]], []):
                                self.succ[fid].add(g["id"])

    def _operands(self, rv):
        for k in ("op", "a", "b"):
            if isinstance(rv.get(k), dict) and "k" in rv[k]:
                yield rv[k]
        for o in rv.get("ops", []):
            yield o

    def _edge_def(self, fid, defpath, defid):
        if defid and defid in self.succ:
            self.succ[fid].add(defid)
        for g in self.impl_methods.get(defpath, []):
            self.succ[fid].add(g)
        for g in self.F.fn_by_path.get(defpath, []):
            self.succ[fid].add(g["id"])

    def reach_to(self, sinks):
        """All fn ids from which some sink id is reachable."""
        pred = {k: set() for k in self.succ}
        for a, bs in self.succ.items():
            for b in bs:
                pred.setdefault(b, set()).add(a)
        seen = set(sinks)
        work = list(sinks)
        while work:
            x = work.pop()
            for p in pred.get(x, ()):
                if p not in seen:
                    seen.add(p)
                    work.append(p)
        return seen

    def path(self, src, sinks):
        """One shortest call path from src to a sink (for reports)."""
        from collections import deque
        prev = {src: None}
        dq = deque([src])
        while dq:
            x = dq.popleft()
            if x in sinks:
                out = []
                while x is not None:
                    out.append(self.F.fn_by_id[x]["path"])
                    x = prev[x]
                return list(reversed(out))
            for y in self.succ.get(x, ()):
                if y not in prev:
                    prev[y] = x
                    dq.append(y)
        return []

    def fns_calling(self, pred):
        out = set()
        for fid, sites in self.sites.items():
            if any(pred(ce) for ce, _ in sites):
                out.add(fid)
        return out


def cg_of(ctx):
    if ctx._cg is None:
        ctx._cg = CallGraph(ctx)
    return ctx._cg


def blocking_sinks(ctx):
    cg = cg_of(ctx)
    return cg.fns_calling(lambda ce: ce["k"] == "fndef" and ce.get("trait") in RAW_TRAITS and ce["name"] in BLOCKING_RAW)


def _floc(f):
    return f["span"]["file"], f["span"]["line"]


def rule_L1(ctx, R):
    res = RuleResult("L1", "total allocation at the API boundary: every safe function from which a blocking raw acquisition is "
                           "reachable takes the thread's key by value (ThreadKey or impl Keyable)")
    cg = cg_of(ctx)
    sinks = blocking_sinks(ctx)
    if not sinks:
        res.undecided("<crate>", "sinks", "no blocking raw lock call found")
    block = cg.reach_to(sinks)
    for f in ctx.F.fns:
        if "inputs" not in f or f["id"] not in block or f.get("unsafe"):
            continue
        if not f.get("reachable"):
            continue   # crate-private helpers cannot be called by client programs; their callers are judged
        keys = [k for k in R.key_inputs(f) if k[1] in ("owned", "keyable")]
        if keys or "REACQ" in R.roles(f):
            res.ok(f["path"])     # (a consumed key carrier holds the key)
        else:
            p = cg.path(f["id"], sinks)
            res.bad(Violation("L1", f["path"], "keyless-blocking", "safe function can block on a lock without surrendering the "
                              "thread key; call path: %s" % " -> ".join(p), *_floc(f)))
    res.need(26, "safe reachable functions that can block")
    return res


def rule_V1(ctx, R):
    res = RuleResult("V1", "no non-acquiring function (Debug/Display/accessors/constructors/consumers/poison accessors) reaches "
                           "a blocking raw acquisition")
    cg = cg_of(ctx)
    sinks = blocking_sinks(ctx)
    block = cg.reach_to(sinks)
    n = 0
    for f in ctx.F.fns:
        if "inputs" not in f or f.get("unsafe") or "NON-ACQ" not in R.roles(f):
            continue
        if not f.get("reachable") and f["id"] in block:
            # a private helper that blocks is judged through its (reachable) callers
            callers_ok = True
            continue
        if f["id"] in block:
            p = cg.path(f["id"], sinks)
            res.bad(Violation("V1", f["path"], "blocking", "non-acquiring operation can wait for a lock; call path: %s"
                              % " -> ".join(p), *_floc(f)))
        else:
            res.ok(f["path"])
    res.need(218, "safe non-acquiring functions")
    return res


def _tries_anything(ctx, f):
    """does any path of f perform a try-acquisition (or fail closed: unknown counts as yes)?"""
    paths, err, I = ctx.paths(f)
    if err or not paths:
        return True
    return any(e["k"] == "TRY" for p in paths for e in p.events) or not any(e["k"] == "ACQ" for p in paths for e in p.events)


def rule_E3(ctx, R):
    res = RuleResult("E3", "try never waits: no TRY-role API, raw_try_* impl or ordered_try_* helper reaches a blocking raw "
                           "acquisition or a blocking HL acquisition")
    cg = cg_of(ctx)
    sinks = set(blocking_sinks(ctx))
    sinks |= cg.fns_calling(lambda ce: ce["k"] == "fndef" and ce.get("trait") == "lockable::RawLock"
                            and ce["name"] in ("raw_write", "raw_read"))
    block = cg.reach_to(sinks)
    fns = []
    for f in ctx.F.fns:
        if "inputs" not in f:
            continue
        ti = f.get("trait_item") or ""
        if "TRY" in R.roles(f) or ti in ("lockable::RawLock::raw_try_write", "lockable::RawLock::raw_try_read"):
            if "TRY" in R.roles(f) and not _tries_anything(ctx, f):
                continue      # hands the key back for another reason (e.g. a rejected input) and never tries a lock: not try-style
            fns.append(f)     # (crate-private helpers of these are covered through the call graph)
    # helper functions returning bool that are built from HL tries count too (discovered, not named)
    for f in fns:
        if f["id"] in block:
            p = cg.path(f["id"], sinks)
            res.bad(Violation("E3", f["path"], "blocking", "try-style operation can wait: call path %s" % " -> ".join(p), *_floc(f)))
        else:
            res.ok(f["path"])
    res.need(40, "try-style functions")
    return res


def rule_K2(ctx, R):
    res = RuleResult("K2", "flag protocol: the key flag is thread-local, set only by a test-and-set whose old value decides "
                           "success, cleared only by the function called from ThreadKey's Drop, unconditionally once")
    F = ctx.F
    cg = cg_of(ctx)
    from facts import ty_walk
    KC = ctx.A.keycell or "key::KeyCell"
    stat = [s for s in F.statics if any(x["k"] == "adt" and x["path"] == KC for x in ty_walk(s["ty"]))]
    # thread_local! expands to a const LocalKey plus an inner #[thread_local] static / lazy storage
    tl = [s for s in F.statics if any(x["k"] == "adt" and x["path"] == KC for x in ty_walk(s["ty"])) and
          (s["thread_local"] or any(x["k"] == "adt" and "thread::local_impl" in x["path"] or x["path"].endswith("LocalKey")
                                    for x in ty_walk(s["ty"]) if x["k"] == "adt"))]
    if not stat:
        res.undecided(KC, "static", "no static of type KeyCell found")
    for s in stat:
        if s in tl:
            res.ok("static %s is thread-local" % s["path"])
        else:
            res.bad(Violation("K2", s["path"], "thread_local", "the key flag %s is a process-wide static: one thread's key "
                              "blocks or unlocks another's" % s["path"], s["span"]["file"], s["span"]["line"]))
    # who writes the flag: decided on the paths of every entry function (the cell type's private methods, closures passed to
    # `LocalKey::with`, associated-function wrappers ... are all seen inlined)
    from rules_ts import entry_fns
    from rules_ts2 import key_construction_sites, observed_clear_then_set, norm_cell_val, key_flag_clear_value
    CLEAR = key_flag_clear_value(ctx)
    from interp import val_contains
    a = F.adts.get(KEY)
    dropfn = F.fn(a["drop_fn"]) if a and a.get("drop_fn") else None
    if dropfn is None:
        res.bad(Violation("K2", KEY, "drop", "ThreadKey has no Drop impl: a dropped key can never be re-obtained / flag never cleared"))

    def flag_writes(p, I):
        out = []
        for e in p.events:
            if e["k"] in ("CELL_SET", "CELL_REPLACE"):
                root = e["recv"].split(".")[0]
                t = I.optype.get(root)
                if t is not None and any(x["k"] == "adt" and x["path"] == KC for x in ty_walk(t)):
                    out.append(e)
        return out
    nset = nclear = 0
    for f in entry_fns(ctx):
        paths, err, I = ctx.paths(f)
        if err or not paths:
            continue
        is_drop = dropfn is not None and f["id"] == dropfn["id"]
        for p in paths:
            ws = flag_writes(p, I)
            if not ws:
                continue
            nv = {id(e): norm_cell_val(p, e.get("val") or e.get("new")) for e in ws}
            # writes performed by the Drop impl of a ThreadKey value that this function drops (a key it made with `get()` and
            # lent out, `ThreadKey::scoped`) are Drop's own: judged there
            in_key_drop, depth_ = set(), 0
            for e in p.events:
                if e["k"] == "DROP_IMPL" and e.get("adt") == KEY:
                    depth_ += 1 if e["phase"] == "begin" else -1
                elif depth_ > 0:
                    in_key_drop.add(id(e))
            ws = [e for e in ws if id(e) not in in_key_drop]
            if not ws:
                continue
            clears = [e for e in ws if nv[id(e)] == CLEAR]
            sets = [e for e in ws if nv[id(e)] is not None and nv[id(e)] != CLEAR]
            other = [e for e in ws if e not in clears and e not in sets]
            bad = None
            if other:
                bad = ("flag-access", "the key flag is written with a value that is not a literal")
            elif clears and not is_drop:
                bad = ("clear-caller", "the key flag is cleared in %s, not only in ThreadKey's Drop: a second key becomes obtainable "
                                       "while the first is alive" % f["path"])
            elif sets and is_drop:
                bad = ("flag-access", "ThreadKey's Drop sets the key flag")
            elif sets:
                built = bool(p.ev("KEY_BUILT"))
                if built and not observed_clear_then_set(p, CLEAR):
                    bad = ("test-and-set", "flag is set but success is not decided by the previous value of the flag")
                if not any(q.ev("KEY_BUILT") for q in paths):
                    bad = ("set-caller", "the key flag is set by %s, which never makes a key" % f["path"])
            if bad:
                res.bad(Violation("K2", f["path"], bad[0], bad[1] + " (path: %s)" % p.trace()[:200], *_floc(f)))
                break
            nset += len(sets)
            nclear += len(clears)
        else:
            if any(flag_writes(p, I) for p in paths):
                res.ok("%s: flag writes conform" % f["path"])
    if dropfn is not None:
        paths, err, I = ctx.paths(dropfn)
        if err:
            res.undecided(dropfn["path"], "analysis", err, *_floc(dropfn))
        else:
            ok = True
            for p in paths:
                if p.kind == "ret":
                    sets = [e for e in flag_writes(p, I) if norm_cell_val(p, e.get("val") or e.get("new")) == CLEAR]
                    if len(sets) != 1:
                        ok = False
                        res.bad(Violation("K2", dropfn["path"], "drop-clears-once", "Drop for ThreadKey clears the flag %d "
                                          "times on a normal path" % len(sets), *_floc(dropfn)))
                        break
            if ok:
                res.ok("Drop for ThreadKey clears the flag exactly once")
    if nset == 0:
        res.bad(Violation("K2", KC, "protocol", "no entry function sets the key flag: every thread can obtain any number of keys"))
    res.need(3, "flag protocol facts")
    return res


def rule_K4(ctx, R):
    res = RuleResult("K4", "a key a function makes is given up on every exit that does not hand it to the caller: on each path on "
                           "which an entry function moves the thread's key flag out of its free state, either the made key is in the "
                           "returned value, or the flag is put back to free later on that path - in particular on every unwinding "
                           "exit (a panic in user code run with a key the function made itself must not leave the flag taken)")
    F = ctx.F
    from facts import ty_walk
    from rules_ts import entry_fns
    from rules_ts2 import norm_cell_val, key_flag_clear_value
    from interp import val_contains
    KC = ctx.A.keycell or "key::KeyCell"
    CLEAR = key_flag_clear_value(ctx)
    n = 0
    for f in entry_fns(ctx):
        paths, err, I = ctx.paths(f)
        if err or not paths:
            continue
        bad = None
        touched = False
        for p in paths:
            if p.kind not in ("ret", "unwind"):
                continue
            ws = []
            for e in p.events:
                if e["k"] in ("CELL_SET", "CELL_REPLACE"):
                    t = I.optype.get(e["recv"].split(".")[0])
                    if t is not None and any(x["k"] == "adt" and x["path"] == KC for x in ty_walk(t)):
                        ws.append(e)
                elif e["k"] == "KEYDROP":
                    ws.append(e)      # a ThreadKey value is dropped: its Drop puts the flag back (K2: exactly once)
                elif e["k"] == "CELL_GET":
                    ws.append(e)
            if not [e for e in ws if e["k"] in ("CELL_SET", "CELL_REPLACE")]:
                continue
            touched = True
            # state of the flag as this path leaves it: the last literal write; writing `taken` over an observed `taken`
            # (a refused get) is no change
            taken = None
            seen = {}
            for e in ws:
                if e["k"] == "KEYDROP":
                    taken = False
                    continue
                if e["k"] == "CELL_GET":
                    seen[e["recv"]] = norm_cell_val(p, e.get("val"))
                    continue
                nv = norm_cell_val(p, e.get("val") or e.get("new"))
                if e["k"] == "CELL_SET" and nv not in (None, CLEAR) and seen.get(e["recv"]) not in (None, CLEAR):
                    continue
                if nv is None:
                    continue
                if nv == CLEAR:
                    taken = False
                elif e["k"] == "CELL_REPLACE" and norm_cell_val(p, e.get("old")) not in (None, CLEAR):
                    pass
                else:
                    taken = True
            if taken:
                handed = p.kind == "ret" and p.value is not None and val_contains(p.value, lambda x: x[0] == "agg" and x[2] == KEY)
                if not handed:
                    bad = "leaves the thread's key flag taken at %s exit without handing the key to the caller (path: %s)" % (
                        "an unwinding" if p.kind == "unwind" else "a normal", p.trace()[:300])
                    break
        if bad:
            res.bad(Violation("K4", f["path"], "key-leak", bad, *_floc(f)))
        elif touched:
            n += 1
            res.ok(f["path"])
    res.need(2, "functions that write the key flag")
    return res
