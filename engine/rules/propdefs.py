"""Property -> rules, explanations, assumptions; runner."""
import time

import common
import roles
import rules_ts as ts
import rules_ts2 as ts2
import rules_sig as sig
import rules_cg as cg
import witness

import rules_struct as st
import rules_struct2 as st2
import rules_sem as sem
import rules_pos as pos

BASE_ASSUME = [
    "rustc's type checker, borrow checker and MIR construction (facts come from the nightly compiler's resolved MIR at "
    "-Zmir-opt-level=0 of /repo's current tree, lib target, cfg(not(test)), panic=unwind)",
    "lock_api implementors honour the RawMutex/RawRwLock contracts",
    "models of the std functions listed in engine/rules/interp.py (MODELS, NOUNWIND) are faithful",
    "Lockable/Sharable::guard-family implementations do not panic; destructors of guard payloads and of foreign (std) types do not "
    "panic (the destructor of a value whose type is a type parameter IS treated as user code that may unwind); arithmetic overflow "
    "of lock counters is out of scope",
]


def leak(rule, roles_, floor, all_fns=False):
    def r(ctx, R):
        return ts.rule_LEAK(ctx, R, rule=rule, roles=roles_, all_fns=all_fns, floor=floor)
    return r


P = {}


def prop(pid, rules, explanation, not_decided, thorough_rules=(), multi_config=True):
    P[pid] = {"rules": list(rules), "thorough": list(thorough_rules), "explanation": explanation,
              "not_decided": not_decided, "multi_config": multi_config}


def S(name):
    """late-bound rule from rules_struct (module is built incrementally)"""
    def r(ctx, R):
        import rules_struct
        return getattr(rules_struct, name)(ctx, R)
    r.__name__ = name
    return r


def A(name):
    def r(ctx, R):
        import rules_alg
        return getattr(rules_alg, name)(ctx, R)
    r.__name__ = name
    return r


def Q4_leaks(ctx, R):
    """Q4 restricted to its `leak` clause (C03): after a panicking raw operation the call unwinds - and the key comes back -
    with a lock still held.  The other clauses of Q4 (stray releases, locks killed needlessly) are C05/C12 matters."""
    import rules_alg, copy
    full = rules_alg.rule_Q4(ctx, R)
    res = copy.copy(full)
    res.violations = [v for v in full.violations if str(v.site).startswith(("leak:", "UNDECIDED", "FLOOR"))]
    keep = set(id(v) for v in res.violations)
    res.instances = [(i, verdict) for (i, verdict) in full.instances if verdict == "ok"] + \
        [(v.site, "VIOLATION") for v in res.violations]
    return res


Q4_leaks.__name__ = "rule_Q4"


def run(pid, tier, t0):
    if pid not in P:
        print("unknown property %s" % pid)
        return 2
    d = P[pid]
    import os
    os.environ["HLV_TIER"] = tier
    ctx = common.Ctx("default")
    R = roles.Roles(ctx)
    results = []
    rules = d["rules"] + (d["thorough"] if tier == "thorough" else [])
    for rule in rules:
        results.append(rule(ctx, R))
    configs = ["default"]
    if tier == "thorough" and d["multi_config"]:
        for cfg in ("all-features", "no-default-features"):
            c2 = common.Ctx(cfg)
            R2 = roles.Roles(c2)
            configs.append(cfg)
            for rule in d["rules"]:
                if getattr(rule, "_witness", False):
                    continue
                r = rule(c2, R2)
                r.rule = r.rule + "@" + cfg
                r.desc = "[%s] %s" % (cfg, r.desc)
                # same keys as in the default configuration: a violation is the same finding
                results.append(r)
    expl = d["explanation"] + "  NOT DECIDED by this check: " + d["not_decided"]
    extra = {"configurations": configs, "facts": ctx.path.split("/")[-1],
             "functions_in_facts": len(ctx.F.fns), "impls_in_facts": len(ctx.F.impls),
             "checker_cmd": "./hlv check %s --tier %s" % (pid, tier),
             "trusted_base": BASE_ASSUME}
    uses_alg = any(getattr(r, "__name__", "").startswith("rule_") and getattr(r, "__module__", "") == __name__ and
                   r.__name__ in ("rule_Y1", "rule_Y2", "rule_Y3", "rule_E5", "rule_X2", "rule_Q3", "rule_Q4") for r in rules) or \
        any(getattr(r, "__module__", "") == "rules_sem" or getattr(r, "__name__", "") in ("rule_E1", "rule_P1") for r in rules)
    if uses_alg:
        import rules_alg
        extra["exhaustive"] = False
        extra["bounds"] = {"list_length_max": rules_alg.tier_n(), "retries_max": rules_alg.retries(),
                           "injected_panics_max": rules_alg.tier_faults(),
                           "retry_loop_list_length_max": min(rules_alg.tier_n(), 6),
                           "data_model": "E2/L2/N1: n <= 3 leaves, every address order / every n^n address assignment; "
                                         "E1/P1 on sequences: 0, 2 and 3 elements (a const generic length is instantiated)",
                           "note": "the data-model rules (Y2/Y3/E5/X2/Q3/Q4, E2/L2/N1, E1/P1 on sequences) enumerate every abstract path "
                                   "within these bounds; all other rules quantify over every function/impl/path of the crate"}
    return common.finish(pid, tier, results, t0, expl, BASE_ASSUME, extra)


def W(pid, toolchain=None):
    r = witness.rule_witness(pid, toolchain)
    r._witness = True
    return r


# ---------------------------------------------------------------------------------------------
LEAK_ALL = leak("LK", (), 54, all_fns=True)
LEAK_SCOPED = leak("R3", ("ACQ-SCOPED", "ACQ-KEYED"), 26)

prop("C01",
     [cg.rule_L1, sem.rule_L2, st.rule_L4, sem.rule_E2, st.rule_E1, sig.rule_O1, sig.rule_O3, st.rule_N5, ts.rule_SD, ts2.rule_K1, cg.rule_K2, ts2.rule_R5, ts2.rule_R3key, ts2.rule_R1, ts2.rule_R7,
      A("rule_Y1"), A("rule_Y2")],
     "Premises of the Havender/Coffman argument, each a necessary condition visible in the code: L1 every safe function that can "
     "reach a blocking raw acquisition takes the key by value (call graph); L2 sorting collections cache get_ptrs(data) sorted "
     "ascending by lock address and block in that order; L4 the owned collection is one indivisible unit with one fixed inner "
     "enumeration; E1 every other wrapper exposes its leaf locks to the enclosing order and duplicate check (only owned-only wrappers "
     "may present themselves as one lock); O1/O3 no shared access to its members, neither directly nor through a guard; SD no re-acquisition of a held receiver inside a call; L5 one key per thread "
     "(K1, K2, R5, R3k, R1); Y1/Y2 the retrying collection has one blocking site per pass reached only after the rollback.",
     "absence of deadlock as a behaviour over all schedules and programs; progress of the retry loop (livelock).")

prop("C02",
     [ts.rule_T1, ts.rule_T2, pos.rule_P1, st2.rule_D1, st.rule_M1, st.rule_E1, st.rule_O2, ts.rule_M4, A("rule_Q3"), st.rule_M2, st.rule_DELEG, sem.rule_E2, A("rule_E5"), ts2.rule_X3, ts2.rule_X4],
     "T1 every guard()/data_mut()/hold construction/protected-cell access is preceded on its path by a successful acquisition of "
     "the same receiver in the matching mode (path-sensitive typestate over every safe or acquiring function, eager arguments "
     "included); T2 user closures run only while held; P1 position k of every container guard is member k; D1 guard Deref targets "
     "the cell of the lock its Drop releases; E1 the locks acquired are exactly the members' leaves; M4/Q3 no release is ever issued "
     "for a receiver the call does not hold (a stray release would free another thread's exclusive hold); M2/E2d/E2 every "
     "implementation of an HL op acquires/releases in the mode its name promises (the API-level analysis relies on it); X4 a "
     "function that takes a guard and returns a guard never releases or re-takes the lock in between (one section stays one).",
     "mutual exclusion and per-lock value continuity as observed over interleavings/histories (they follow from the raw lock's "
     "contract plus these rules, by argument not by check).")

prop("C03",
     [ts2.rule_R1, sig.rule_R2, LEAK_SCOPED, ts2.rule_R3key, ts2.rule_R4, ts2.rule_R5, ts.rule_M4, A("rule_E5"), A("rule_Y3"), st.rule_M5, ts2.rule_R6, st.rule_X1, ts2.rule_R7, sig.rule_S3, ts2.rule_K1, cg.rule_K2, Q4_leaks, ts2.rule_R8],
     "R1 unlock-style APIs release every lock of the consumed guard before returning its key; R2 key field declared after hold "
     "fields in every guard (drop order); R3 scoped calls hold nothing at return and at every unwinding exit; R3k the key outlives "
     "the closure; R4 a failed try returns Err(key) holding nothing and without running user code; R5 guard-returning APIs move the "
     "key exactly once into the result; E5 collection-level acquisitions hold every member exactly once on success and none on "
     "failure; Y3 the retrying collection never starts a blocking acquisition while it still holds a member; M5 a leaf lock's "
     "acquiring op never panics after its raw acquisition returned (the key would come back while the raw lock stays locked); X1 a "
     "leaf try reports exactly what the raw try did (a `false` while the raw lock was taken hands the key back with the lock held); "
     "R7/S3 only functions that take the key by value may return holding a lock; no API takes a reference to the key instead; "
     "K1/K2 the key these rules follow is the only one: a second, transient or stand-in ThreadKey built anywhere re-arms the "
     "thread's flag when it is dropped and hands the thread a key while its guard is still alive; Q4 (leak clause) after a "
     "panicking raw operation the collection call unwinds with nothing held (bounded data model, see C12).",
     "the single-thread history enumeration itself (the rules are per-API invariants that make every history safe).")

prop("C04",
     [st.rule_E1, sem.rule_E2, st.rule_DELEG, cg.rule_E3, ts2.rule_E4r, ts2.rule_R4, A("rule_E5"), A("rule_X2"), sem.rule_N1, st.rule_N4, st.rule_N5, sig.rule_O1, sig.rule_O3, Q4_leaks],
     "E1 every get_ptrs is leaf/delegate/container(all members)/cached-sorted-list; E2 (data model, helpers inlined) each of the 24 "
     "collection lock operations touches every leaf exactly once and only in its own mode; wrappers delegate op-for-op; E3 no try-style function "
     "reaches a blocking acquisition (call graph); E4 scoped closure runs exactly once iff acquired and its result is returned; "
     "E5/X2 ordered_try_*: true only after the loop ran to exhaustion, false only after rolling back the acquired prefix; "
     "N1/N4/N5 'each exactly once': a safe constructor without an OwnedLockable bound returns a collection exactly when all leaf "
     "addresses are distinct (data model, every address assignment of <= 3 leaves); the fact cannot be invalidated later.",
     "behaviour against concurrent holders (schedules); that the raw try really never waits (lock_api contract).")

prop("C05",
     [st.rule_M1, st.rule_M2, st.rule_M5, ts.rule_M4, LEAK_ALL, sem.rule_E2, ts2.rule_R1, sig.rule_A7, A("rule_Q3"), A("rule_Q4"), pos.rule_P1],
     "M1 hold types release exactly once in their creation mode on their own lock field and are not Clone/Copy; M2 each HL op maps to "
     "one lock_api op of the same kind and mode; M4 every release (explicit, hold Drop, guard drop) hits a receiver the call holds "
     "in that mode; LK every lock a call acquires is released or owned by the returned guard at every exit; E2 mode purity of the "
     "collection ops; Q3/Q4 rollback and unwind handlers of the multi-lock algorithms release what was taken, in mode.",
     "'when all threads dropped their guards every lock is free' as a run-time fact over schedules.")
prop("C06",
     [ts2.rule_K1, cg.rule_K2, sig.rule_K3, sig.rule_S2, ts2.rule_R5, ts2.rule_R3key, ts2.rule_R1, ts2.rule_R6],
     "Static invariants behind 'at most one live ThreadKey per thread': K1 single constructor guarded by the flag test-and-set "
     "(path-sensitive analysis of ThreadKey::get: no key object exists on the refusing path), K2 flag protocol (thread-local, "
     "set by test-and-set, cleared only by Drop for ThreadKey, once), K3 impl table (no Clone/Copy/Default/Send, Keyable sealed), "
     "S2/R5/R3k/R1 key conservation: every API moves the key into its guard / Err / back out, never drops, forges or duplicates it.",
     "agreement with a reference model over API histories (the rules are the invariants such a model would check).")

prop("C14",
     [sig.rule_K3, sig.rule_S1, sig.rule_S2, sig.rule_S3, sig.rule_S5, sig.rule_A4, ts2.rule_R6, ts2.rule_R7, ts2.rule_R8, W("C14")],
     "Universal signature rules over every function/impl of the crate (impl table of the key, private fields of key carriers, "
     "key conservation at signature level, no reference-to-key APIs, no replaceable guard payload behind &mut, unsafe markers), "
     "R6/R7/R8 path rules (holds never outlive the key of their carrier; only owners of the key return holding; no user code "
     "between giving the key up and releasing the locks) "
     "plus a corpus of offending client programs that the real compiler must reject, each with a compiling twin.",
     "programs outside the corpus are covered only as far as the universal rules capture the escape routes.",
     thorough_rules=[W("C14", "nightly")])

prop("C15",
     [sig.rule_A1, sig.rule_A2, sig.rule_A3, sig.rule_A4, sig.rule_A6, sig.rule_A7, sig.rule_O1, sig.rule_O3, ts.rule_T1, sem.rule_N1, st.rule_N4, pos.rule_P1, W("C15")],
     "Auto-trait table of all manual Send/Sync impls against std's Mutex/RwLock bounds, higher-ranked closure data in every "
     "scoped signature, hold types borrow their lock, read holds have no mutable access, unsafe markers, no shared access into "
     "OwnedLockCollection, protected cells touched only under a hold (T1), constructors that skip the duplicate check require unsafe "
     "or an OwnedLockable bound (N1) and OwnedLockable is never implemented for anything that borrows its locks (N4), every container/"
     "wrapper maps guard/data_mut/read_guard/data_ref to the same operation of its members (P1: no `&mut` view under a shared hold) - plus compile-fail witnesses with twins.",
     "soundness of unsafe blocks beyond T1/A5; programs outside the corpus.",
     thorough_rules=[W("C15", "nightly")])

prop("C07",
     [sem.rule_N1, st.rule_N4, st.rule_N5, sem.rule_L2, st.rule_E1, sig.rule_O1, sig.rule_O3, W("C07")],
     "N1 (data model; subsumes the former shape rules N2/N3) a collection can only be built by an unsafe constructor, under an "
     "OwnedLockable bound, or by a constructor that returns it exactly when the leaf addresses of its data are pairwise distinct - "
     "decided for every assignment of addresses to up to 3 leaves with the real get_ptrs/sort/check code inlined and sort_by_key, "
     "windows, zip, HashSet::insert, all/any and thin-pointer comparison interpreted on the model; N4 OwnedLockable is never implemented "
     "for shared references or borrowing collections and is inherited only through OwnedLockable parameters; N5 collections that can "
     "hold borrowed locks give `&mut` access to their data only under an OwnedLockable bound (the checked fact cannot be invalidated); "
     "compile-fail witnesses.",
     "exactness as a function of all inputs (correctness of slice::sort / HashSet); zero-sized lock types sharing an address.",
     thorough_rules=[W("C07", "nightly")])

prop("C08",
     [sem.rule_L2, st.rule_O2, st.rule_E1, st.rule_L4, sem.rule_E2, sig.rule_O1, sig.rule_O3],
     "L2 (data model) every constructor of a sorting collection stores the complete leaf list sorted ascending by address, and E2 the "
     "blocking ops acquire in ascending address order for every address order; O2 the cached order and the data are never written after construction and no &mut to the data is handed "
     "out; E1 nested boxed/ref/retrying collections contribute their leaves, the owned collection contributes itself (L4).",
     "the run-time acquisition sequence for concrete inputs.")

prop("C09",
     [A("rule_Y1"), A("rule_Y2"), A("rule_Y3"), sem.rule_E2, cg.rule_E3, st.rule_E1, sig.rule_O1, sig.rule_O3, ts.rule_T1],
     "Y1 exactly one blocking acquisition site per pass, every other acquisition of the pass is a try; Y2 every path from a failed "
     "try back to the blocking site passes through the rollback of the prefix and the guarded release of the first lock; Y3 the "
     "held set is empty whenever the blocking site is reached (k-bounded held-set analysis: list length <= 3 quick / 6 thorough, <= 2 / 4 "
     "retries, every try outcome and at most one (thorough: three) injected panics).",
     "'nevertheless finishes': liveness under contention (the authors document possible livelock).")

prop("C10",
     [st2.rule_F1, st2.rule_F2, st2.rule_F3, st2.rule_F4, st2.rule_F5, st2.rule_F6, st2.rule_F7, st2.rule_V3, st.rule_Q6, sig.rule_O1],
     "F1 PoisonRef poisons exactly when dropped during unwinding, with the flag of its own Poisonable; F2 Poisonable's scoped calls "
     "poison in the handler before releasing, never on the normal path; F3 Err(PoisonError(x)) exactly on the poisoned edge with the "
     "same payload x as Ok(x); F4 who may call PoisonFlag::poison; F5 RawLock::poison (kill) only in handlers whose try closure has "
     "no user call; F6 exclusive scoped calls over generic lockables poison contained Poisonables (fails: known finding); F7 no reachable function "
     "forgets a PoisonRef (its Drop is the only poisoning point of guard-based holds).",
     "the history model (re-poison after clear, cross-thread visibility beyond Relaxed atomics).")

prop("C11",
     [ts2.rule_G1, ts2.rule_G2, LEAK_SCOPED, ts2.rule_R3key, st.rule_M1, sig.rule_R2, ts.rule_M4, ts2.rule_E4r, st.rule_M2, LEAK_ALL, cg.rule_K4, sig.rule_D2],
     "G1 handle_unwind is catch -> handler -> resume (no swallowed panic, handler only on unwind); G2 catch_unwind is used nowhere "
     "else; G3 every scoped function holds nothing at every unwinding exit (its handler releases the acquired receiver once, in "
     "mode); G4 RAII holds release in Drop and the key field drops after them; G5 the key is still owned by the frame while the "
     "closure runs; M2 every release op of a leaf lock reaches its raw lock on every path (also when the lock has been killed); "
     "K4 a key a function makes itself (flag moved out of its free state) is either in the returned value or given up again on "
     "every exit, unwinding exits included; D2 no field that can own a hold or a key has its destructor switched off "
     "(ManuallyDrop / MaybeUninit without a Drop impl): whatever a panic drops is really dropped.",
     "progress of waiting threads (schedules).")

prop("C12",
     [st.rule_Q1, st.rule_Q2, st.rule_Q6, st.rule_M5, st2.rule_F5, A("rule_Q3"), A("rule_Q4"), st2.rule_Q7],
     "Q1 every lock_api call sits in a handle_unwind try closure whose handler kills the same lock, and nowhere else; Q2 killed locks "
     "refuse (blocking ops panic, try ops return false, no raw op attempted); Q3 the algorithms' acquisition loops run inside "
     "handle_unwind with a handler releasing a prefix of the same list in the same mode; Q4 at every unwind source the handler "
     "releases exactly what is held (held-set abstract interpretation; known findings where it does not).",
     "the fault-injection runs themselves; behaviour of third-party raw locks after a panic.")

prop("C13",
     [st.rule_X1, A("rule_X2"), ts2.rule_X3, ts2.rule_R4, cg.rule_E3, st.rule_M1, st.rule_M2, sem.rule_E2, A("rule_E5"), st.rule_E1, pos.rule_P1, A("rule_Q3")],
     "X1 raw_try_* of Mutex/RwLock returns the unmodified lock_api try result on the not-killed path; X2 collection try is a "
     "conjunction in list order with rollback, in the requested mode only; R4/E5 a failed attempt holds nothing; E3 never waits; E1 the list a collection tries is exactly the leaves of all its members, whatever the nesting; "
     "P1 every container/wrapper hands out, for a shared acquisition, the members' *shared* guards (a read guard that releases exclusively is not undone by dropping it).",
     "the raw lock's own exactness (try succeeds iff free) and the enumeration over held patterns.")

prop("C16",
     [st2.rule_H1, st2.rule_H2, pos.rule_P1, pos.rule_H4, pos.rule_H5],
     "H1 heap-cell ownership typestate of the boxed collection (one from_raw per cell, forget after into_child, rejected try_new "
     "drops); H2 no other leak/duplication primitive; H3 MaybeUninit arrays written at equal source/destination index over 0..N and "
     "finalised once (in P1); H4 accessors/consumers return their own stored data at the declared positions; H5 a by-value "
     "argument of a user-chosen type (data of new/from, iterator of extend/from_iter) is never destroyed on a returning path of "
     "a function that cannot refuse it.",
     "drop counts when user Drop/Default/Debug code itself panics; values observed after writes (follows from C02).")

prop("C17",
     [cg.rule_V1, st2.rule_V2, st2.rule_V3, ts.rule_T1, ts.rule_M4, st2.rule_V4],
     "V1 no non-acquiring function reaches a blocking raw acquisition (call graph over all 200+ of them); V2 a non-acquiring "
     "function releases nothing except a hold it took itself by a successful try, and releases that on every exit; V3 poison "
     "accessors touch only the flag.",
     "the transient effect of Debug's try-lock on concurrent try_* callers.")
