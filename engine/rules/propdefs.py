"""Property -> rules, explanations, assumptions; runner."""
import time

import common
import roles
import rules_ts as ts
import rules_ts2 as ts2
import rules_sig as sig
import rules_cg as cg
import witness

try:
    import rules_struct as st
except ImportError:  # pragma: no cover
    st = None
try:
    import rules_alg as alg
except ImportError:  # pragma: no cover
    alg = None

BASE_ASSUME = [
    "rustc's type checker, borrow checker and MIR construction (facts come from the nightly compiler's resolved MIR at "
    "-Zmir-opt-level=0 of /repo's current tree, lib target, cfg(not(test)), panic=unwind)",
    "lock_api implementors honour the RawMutex/RawRwLock contracts",
    "models of the std functions listed in engine/rules/interp.py (MODELS, NOUNWIND) are faithful",
    "Lockable/Sharable::guard-family implementations do not panic; user Drop impls do not panic; arithmetic overflow of "
    "lock counters is out of scope",
]


def leak(rule, roles_, floor, all_fns=False):
    def r(ctx, R):
        return ts.rule_LEAK(ctx, R, rule=rule, roles=roles_, all_fns=all_fns, floor=floor)
    return r


P = {}


def prop(pid, rules, explanation, not_decided, thorough_rules=(), multi_config=True):
    P[pid] = {"rules": list(rules), "thorough": list(thorough_rules), "explanation": explanation,
              "not_decided": not_decided, "multi_config": multi_config}


def S(name):
    """late-bound rule from rules_struct (module is built incrementally)"""
    def r(ctx, R):
        import rules_struct
        return getattr(rules_struct, name)(ctx, R)
    r.__name__ = name
    return r


def A(name):
    def r(ctx, R):
        import rules_alg
        return getattr(rules_alg, name)(ctx, R)
    r.__name__ = name
    return r


def run(pid, tier, t0):
    if pid not in P:
        print("unknown property %s" % pid)
        return 2
    d = P[pid]
    ctx = common.Ctx("default")
    R = roles.Roles(ctx)
    results = []
    rules = d["rules"] + (d["thorough"] if tier == "thorough" else [])
    for rule in rules:
        results.append(rule(ctx, R))
    configs = ["default"]
    if tier == "thorough" and d["multi_config"]:
        for cfg in ("all-features", "no-default-features"):
            c2 = common.Ctx(cfg)
            R2 = roles.Roles(c2)
            configs.append(cfg)
            for rule in d["rules"]:
                if getattr(rule, "_witness", False):
                    continue
                r = rule(c2, R2)
                r.rule = r.rule + "@" + cfg
                r.desc = "[%s] %s" % (cfg, r.desc)
                # same keys as in the default configuration: a violation is the same finding
                results.append(r)
    expl = d["explanation"] + "  NOT DECIDED by this check: " + d["not_decided"]
    extra = {"configurations": configs, "facts": ctx.path.split("/")[-1],
             "functions_in_facts": len(ctx.F.fns), "impls_in_facts": len(ctx.F.impls),
             "checker_cmd": "./hlv check %s --tier %s" % (pid, tier),
             "trusted_base": BASE_ASSUME}
    return common.finish(pid, tier, results, t0, expl, BASE_ASSUME, extra)


def W(pid, toolchain=None):
    r = witness.rule_witness(pid, toolchain)
    r._witness = True
    return r


# ---------------------------------------------------------------------------------------------
prop("C06",
     [ts2.rule_K1, cg.rule_K2, sig.rule_K3, sig.rule_S2, ts2.rule_R5, ts2.rule_R3key, ts2.rule_R1],
     "Static invariants behind 'at most one live ThreadKey per thread': K1 single constructor guarded by the flag test-and-set "
     "(path-sensitive analysis of ThreadKey::get: no key object exists on the refusing path), K2 flag protocol (thread-local, "
     "set by test-and-set, cleared only by Drop for ThreadKey, once), K3 impl table (no Clone/Copy/Default/Send, Keyable sealed), "
     "S2/R5/R3k/R1 key conservation: every API moves the key into its guard / Err / back out, never drops, forges or duplicates it.",
     "agreement with a reference model over API histories (the rules are the invariants such a model would check).")

prop("C14",
     [sig.rule_K3, sig.rule_S1, sig.rule_S2, sig.rule_S3, sig.rule_S5, sig.rule_A4, W("C14")],
     "Universal signature rules over every function/impl of the crate (impl table of the key, private fields of key carriers, "
     "key conservation at signature level, no reference-to-key APIs, no replaceable guard payload behind &mut, unsafe markers) "
     "plus a corpus of offending client programs that the real compiler must reject, each with a compiling twin.",
     "programs outside the corpus are covered only as far as the universal rules capture the escape routes.",
     thorough_rules=[W("C14", "nightly")])

prop("C15",
     [sig.rule_A1, sig.rule_A2, sig.rule_A3, sig.rule_A4, sig.rule_O1, ts.rule_T1, W("C15")],
     "Auto-trait table of all manual Send/Sync impls against std's Mutex/RwLock bounds, higher-ranked closure data in every "
     "scoped signature, hold types borrow their lock, read holds have no mutable access, unsafe markers, no shared access into "
     "OwnedLockCollection, protected cells touched only under a hold (T1) - plus compile-fail witnesses with twins.",
     "soundness of unsafe blocks beyond T1/A5; programs outside the corpus.",
     thorough_rules=[W("C15", "nightly")])
