#!/usr/bin/env python3
"""hlv: static verification of happylock.  `hlv check <ID> [--tier quick|thorough]`"""
import argparse
import json
import os
import sys
import time

sys.setrecursionlimit(10000)
HERE = os.path.dirname(os.path.abspath(__file__))
sys.path.insert(0, HERE)

import common
import roles
from facts import FactsError


def main():
    ap = argparse.ArgumentParser()
    sub = ap.add_subparsers(dest="cmd")
    c = sub.add_parser("check")
    c.add_argument("prop")
    c.add_argument("--tier", default=os.environ.get("VERIF_TIER") or "quick")
    e = sub.add_parser("explain")
    e.add_argument("report")
    a = ap.parse_args()
    if a.cmd == "explain":
        print(json.dumps(json.load(open(a.report)), indent=1))
        return 0
    if a.cmd != "check":
        ap.print_help()
        return 2
    import propdefs
    t0 = time.time()
    tier = a.tier if a.tier in ("quick", "thorough") else "quick"
    try:
        return propdefs.run(a.prop, tier, t0)
    except FactsError as ex:
        # fail closed: without facts nothing is decided
        print("hlv: cannot extract facts from /repo: %s" % ex)
        rep = os.path.join(os.environ.get("HLV_OUT") or common.VERIF, "reports", "%s-facts.json" % a.prop)
        os.makedirs(os.path.dirname(rep), exist_ok=True)
        json.dump({"rule": "FACTS", "message": str(ex)}, open(rep, "w"))
        print("VIOLATION property=%s replay=%s" % (a.prop, rep))
        return 1


if __name__ == "__main__":
    sys.exit(main())
