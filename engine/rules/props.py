"""Property -> rules table.  Each entry: (module, function, tier) ; tier 'quick' rules also run in thorough."""
import rules_ts as ts
import rules_ts2 as ts2
import rules_sig as sig
import rules_cg as cg

PROPS = {}


def reg(pid, *rules):
    PROPS.setdefault(pid, []).extend(rules)
