"""Crate-specific configuration of the interpreter, *discovered from the facts*:
hold types (ADTs whose Drop releases a lock), data projections of RawLock
wrappers, primitive crate-local functions."""
import interp
from interp import Interp, Undecided, UNIT, loc_s

import anchors


def _flag_read(I, st, fn, tdef, args, line, dest_ty, may_unwind):
    recv = I.recv_name(I.recv_of(st, args[0]))
    ev = I.emit(st, {"k": "FLAG_READ", "recv": recv}, fn, line)
    rv = I.fresh_op(st, "flag", dest_ty, tag=("flag", recv, ev["i"]))
    ev["result"] = rv[1]
    return [("ret", rv, st)]


def _flag_set(I, st, fn, tdef, args, line, dest_ty, may_unwind):
    recv = I.recv_name(I.recv_of(st, args[0]))
    I.emit(st, {"k": "FLAG_SET", "recv": recv}, fn, line)
    return [("ret", UNIT, st)]


def _flag_clear(I, st, fn, tdef, args, line, dest_ty, may_unwind):
    recv = I.recv_name(I.recv_of(st, args[0]))
    I.emit(st, {"k": "FLAG_CLEAR", "recv": recv}, fn, line)
    return [("ret", UNIT, st)]


def discover_holdtypes(F):
    """ADTs whose Drop impl performs exactly one HL release on the lock behind one of their fields."""
    I = Interp(F)
    out = {}
    detail = {}
    for a in F.adts.values():
        if not a.get("drop_fn"):
            continue
        try:
            dfn = F.fn(a["drop_fn"])
            paths = I.analyze(dfn)
        except (Undecided, KeyError) as e:
            detail[a["path"]] = "undecided: %s" % e
            continue
        rets = [p for p in paths if p.kind == "ret"]
        rels = set()
        ok = bool(rets)
        for p in rets:
            r = p.ev("REL")
            if len(r) != 1:
                ok = False
                break
            rels.add((r[0]["recv"], r[0]["mode"]))
        if ok and len(rels) == 1:
            recv, mode = next(iter(rels))
            # recv looks like a1.*.<field>.*
            parts = recv.split(".")
            if len(parts) == 4 and parts[0] == "a1" and parts[1] == "*" and parts[3] == "*" and parts[2].isdigit():
                out[a["path"]] = (int(parts[2]), mode)
                detail[a["path"]] = "Drop releases field %s in mode %s" % (parts[2], mode)
            else:
                detail[a["path"]] = "Drop releases %s (%s): not a field of self" % (recv, mode)
        else:
            detail[a["path"]] = "Drop has no unique release (%s)" % sorted(rels)
    return out, detail


def discover_dataproj(F, holdtypes):
    """For every local ADT implementing RawLock and Lockable: which projection of `self` do the
    four ASSUME ops delegate to?  (leaf locks build holds / touch their own cell: no projection)"""
    I = Interp(F)
    I.holdtypes = holdtypes
    raw = I.rawlock_adts()
    out = {}
    detail = {}
    for tr, ops in (("lockable::Lockable", ("guard", "data_mut")), ("lockable::Sharable", ("read_guard", "data_ref"))):
        for imp in F.impls_of(tr):
            st = imp["self_ty"]
            if st["k"] != "adt" or st["path"] not in raw:
                continue
            for it in imp["items"]:
                if it["name"] not in ops:
                    continue
                fn = F.fn_by_id[it["id"]]
                try:
                    paths = I.analyze(fn)
                except Undecided as e:
                    detail[(st["path"], it["name"])] = "undecided: %s" % e
                    continue
                projs = set()
                for p in paths:
                    if p.kind != "ret":
                        continue
                    for e in p.ev("ASSUME"):
                        projs.add((e["recv"], e["op"]))
                detail[(st["path"], it["name"])] = sorted(projs)
                for recv, op in projs:
                    if op in ("guard", "data_mut", "read_guard", "data_ref") and recv.startswith("a1.*."):
                        pr = tuple(int(x) if x.isdigit() else x for x in recv[len("a1.*."):].split("."))
                        out.setdefault(st["path"], set()).add(pr)
    return {k: sorted(v, key=str) for k, v in out.items()}, detail


_cache = {}


def build(F):
    key = id(F)
    if key in _cache:
        return _cache[key]
    hold, hold_detail = discover_holdtypes(F)
    dp, dp_detail = discover_dataproj(F, hold)

    def make():
        I = Interp(F)
        I.holdtypes = hold
        I.dataproj = dp
        A = anchors.get(F)
        I.primitives = {}
        # (the poison / kill flag methods are not summarised either: AtomicBool operations are modelled directly, so the flag
        #  may be wrapped in private enums, helper methods, fetch_or / swap ... without changing any verdict)
        # the crate-private list helpers (ordered_*, get_locks*, duplicate checks, rollback helpers) are NOT summarised: they
        # are inlined wherever a public operation reaches them, so their names, number and shapes are free to change
        I.roles = {}
        return I
    m = {"make": make, "holdtypes": hold, "hold_detail": hold_detail, "dataproj": dp, "dataproj_detail": dp_detail}
    _cache[key] = m
    return m


if __name__ == "__main__":
    import sys
    import facts
    F = facts.Facts(sys.argv[1])
    m = build(F)
    print("holdtypes", m["holdtypes"])
    print("dataproj", m["dataproj"])
    for k, v in m["hold_detail"].items():
        print("  hold:", k, v)
    for k, v in m["dataproj_detail"].items():
        print("  dp:", k, v)
    for pat in sys.argv[2:]:
        for f in F.fns:
            if pat in f["path"] and f["kind"] != "Closure":
                I = m["make"]()
                print("==", f["path"])
                try:
                    for p in I.analyze(f):
                        print("   ", p.trace())
                        for pr in p.problems:
                            print("      PROBLEM", pr)
                        if p.kind == "ret":
                            print("      ret:", p.value, " locks:", p.locks)
                        else:
                            print("      locks:", p.locks)
                except Undecided as e:
                    print("   UNDECIDED", e)
