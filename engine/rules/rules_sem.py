"""Semantic (data-model) rules over the collections.

The abstract lockable a collection is built over has n leaves LIST.[0..n) (in get_ptrs order) with *model addresses*;
`Vec`, `HashSet`, slice sorting, iterator adaptors and pointer comparisons are interpreted on that model (listmodel.py),
every crate-private helper is inlined.  Nothing is executed: lock outcomes stay symbolic and every path is explored.
Because the rules look only at what a public operation *does* to the leaves (which, in which order, in which mode) and
at the value it returns, renaming, moving, extracting or inlining helpers and rewriting loops as iterator chains leave
the verdicts unchanged.

  E2   each of the 24 collection lock operations touches every leaf exactly once, in its own mode; the sorting
       collections block in ascending address order for every address assignment; the owned collection blocks in one
       fixed order for both modes; release ops release every leaf once.
  L2   every constructor of a sorting collection stores the complete leaf list sorted ascending by address.
  N1   a safe constructor without an OwnedLockable bound returns a collection exactly when all leaf addresses are
       distinct (all address assignments for n <= 3): subsumes the shape of the duplicate checks.
"""
import itertools

from common import RuleResult, Violation
from facts import ty_walk
from interp import Undecided, State
import listmodel
import rules_alg
from rules_alg import LID, explore, alg_functions
from rules_struct import COLLS, SORTING, HL_SEM, _floc, lock_list_field, _has_owned_bound

OWNED_COLL = "collection::OwnedLockCollection"


def _leaf_index(recv):
    if recv and recv.startswith(LID + ".[") and recv.endswith("].*"):
        try:
            return int(recv[len(LID) + 2:-3])
        except ValueError:
            return None
    return None


def _perms(n):
    return [list(p) for p in itertools.permutations(range(n))]


def rule_E2(ctx, R):
    res = RuleResult("E2", "collection lock operations, decided on the data model: every leaf exactly once and only in the operation's "
                           "mode; sorting collections block in ascending address order under every address assignment; the owned "
                           "collection blocks in one order for both modes; release ops release every leaf")
    fns = alg_functions(ctx)
    seqs = {}
    for f, label, kind, mode, pre in fns:
        coll = label.split("::")[0]
        bad = None
        for n in (2, 3):
            # all orders of distinct addresses, plus lists in which different leaves share an address (zero-sized members):
            # every leaf must still be covered
            for addrs in _perms(n) + [[0] * n] + ([[0, 0, 1], [1, 0, 0]] if n == 3 else []):
                ll = None
                if label.startswith("Retrying::raw_") and kind == "ACQ":
                    ll = (n + 2) * 2
                paths, err = explore(ctx, f, n, mode, kind, faults=0, loop_limit=ll, preheld=pre, addrs=addrs, acq_limit=2 if ll else None)
                if err:
                    res.undecided(f["path"], "n=%d" % n, err, *_floc(f))
                    bad = "undecided"
                    break
                for p in paths:
                    evs = [e for e in p.events if e["k"] in ("ACQ", "TRY", "REL") and _leaf_index(e.get("recv")) is not None]
                    for e in evs:
                        if e["mode"] != mode:
                            bad = "%s-mode operation on %s inside %s" % (e["mode"], e["recv"], label)
                        if kind == "REL" and e["k"] != "REL":
                            bad = "acquisition inside a release operation"
                        if kind == "TRY" and e["k"] == "ACQ":
                            bad = "blocking acquisition inside a try operation"
                    if bad or p.kind != "ret":
                        continue
                    if kind == "ACQ" and coll != "Retrying":
                        order = [_leaf_index(e["recv"]) for e in evs if e["k"] == "ACQ"]
                        if sorted(order) != list(range(n)):
                            bad = "blocking acquisition covers leaves %s of %d (n=%d)" % (order, n, n)
                        elif coll in ("Boxed", "Ref"):
                            a = [addrs[k] for k in order]
                            if a != sorted(a):
                                bad = "leaves with addresses %s are acquired in the order %s: not ascending by address" % (addrs, a)
                        seqs.setdefault((coll, tuple(addrs)), {})[label] = order
                    if kind == "REL":
                        rel = sorted(_leaf_index(e["recv"]) for e in evs if e["k"] == "REL")
                        if rel != list(range(n)):
                            bad = "releases leaves %s of %d" % (rel, n)
                    if kind == "TRY" and p.value == ("const", True):
                        tr = sorted(_leaf_index(e["recv"]) for e in evs if e["k"] == "TRY")
                        if tr != list(range(n)):
                            bad = "a successful attempt tried leaves %s of %d" % (tr, n)
                if bad:
                    break
            if bad:
                break
        if bad == "undecided":
            continue
        if bad:
            res.bad(Violation("E2", f["path"], label.split("::")[1], "%s: %s" % (label, bad), *_floc(f)))
        else:
            res.ok(label)
    # RawLock::poison of a collection forwards the kill to every leaf (an owned collection is ONE leaf of an enclosing
    # collection: the recovery code kills it through this method when it cannot release it)
    from rules_struct import rawlock_impl_fns
    for adt, name, f in rawlock_impl_fns(ctx, set(rules_alg.COLL_LABEL)):
        if name != "poison":
            continue
        label = rules_alg.COLL_LABEL[adt] + "::poison"
        bad = None
        for n in (2, 3):
            paths, err = explore(ctx, f, n, "W", "KILL", faults=0)
            if err:
                bad = "undecided: " + err
                break
            for p in paths:
                if p.kind == "unwind" and any(e["k"] in ("PANIC", "ASSERT_FAIL") for e in p.events):
                    bad = "panics instead of killing its leaves"
                if p.kind == "ret":
                    killed = sorted(set(_leaf_index(e["recv"]) for e in p.ev("KILL") if _leaf_index(e.get("recv")) is not None))
                    if killed != list(range(n)):
                        bad = "kills leaves %s of %d" % (killed, n)
            if not any(p.kind == "ret" for p in paths):
                bad = bad or "never returns"
            if bad:
                break
        if bad:
            res.bad(Violation("E2", f["path"], "poison", "%s: %s" % (label, bad), *_floc(f)))
        else:
            res.ok(label)
    # one internal order per collection, whatever the mode (an owned collection is locked as a unit: a reader and a writer
    # of the same unit must not take its members in opposite orders)
    for (coll, addrs), d in sorted(seqs.items()):
        if len(set(tuple(v) for v in d.values())) > 1:
            f = next(f for f, label, *_ in fns if label.startswith(coll + "::raw_read"))
            res.bad(Violation("E2", f["path"], "one-order", "%s collection: blocking write and read acquisitions take the members in "
                              "different orders for addresses %s: %s" % (coll, list(addrs), d), *_floc(f)))
    res.need(28, "collection lock operations")
    return res


# ---------------------------------------------------------------------------------------------
def _address_functions(n):
    """n <= 3: all assignments of addresses to n leaves (with repetitions: duplicates) - n^n of them.
    Longer lists (size-dependent code paths, e.g. a different duplicate check above a length threshold): the descending
    order, one rotation, and every single duplicated pair on top of a descending order."""
    if n <= 3:
        return [list(t) for t in itertools.product(range(n), repeat=n)]
    desc = list(range(n - 1, -1, -1))
    out = [desc, desc[1:] + desc[:1]]
    for i in range(n):
        for j in range(i + 1, n):
            a = list(desc)
            a[j] = a[i]
            out.append(a)
    return out


def ctor_sizes():
    import os
    return (0, 1, 2, 3, 4, 5, 6, 8) if os.environ.get("HLV_TIER") == "thorough" else (0, 1, 2, 3, 5)


def constructors(ctx):
    """reachable or unsafe functions that build a collection from a lockable: the output mentions a collection by value,
    no input is that collection, and some input mentions a type parameter"""
    out = []
    for f in ctx.F.fns:
        if f["kind"] == "Closure" or "inputs" not in f or "mir" not in f or not f.get("reachable"):
            continue
        o = f["output"]
        colls = [x["path"] for x in ty_walk(o) if x["k"] == "adt" and x["path"] in COLLS]
        if not colls:
            continue
        if o["k"] == "ref":
            continue
        if any(x["k"] == "adt" and x["path"] in COLLS for t in f["inputs"] for x in ty_walk(t)):
            continue   # conversions / accessors taking a collection: the input was already constructed
        if not any(x["k"] == "param" for t in f["inputs"] for x in ty_walk(t)) and f["inputs"]:
            continue
        out.append((f, colls[0]))
    return out


def run_constructor(ctx, f, n, addrs):
    I = ctx.M["make"]()
    for p in list(I.primitives):
        if p in ctx.A.role:
            del I.primitives[p]
    I.loop_limit = n + 4
    st = State()
    rules_alg.data_model(I, st, n, addrs)
    m = f["mir"]
    args = []
    for i in range(1, m["arg_count"] + 1):
        t = m["locals"][i]["ty"]
        rid = "a%d" % i
        I.oploc[rid] = ("O", rid, ())
        I.optype[rid] = t
        args.append(("op", rid, None))
    try:
        return I.analyze(f, args, st), None, I
    except Undecided as e:
        return None, str(e), I
    except RecursionError:
        return None, "recursion limit", I


def _find_colls(v, acc):
    if v and v[0] == "agg":
        if v[1] == "adt" and v[2] in COLLS:
            acc.append(v)
        for x in v[4]:
            _find_colls(x, acc)
    return acc


def rule_CT(ctx, R):
    """L2 + N1/N2/N3 on the data model"""
    res_l2 = RuleResult("L2", "every constructor of a sorting collection stores the complete leaf list of its data, sorted ascending by "
                              "address (data model: all address assignments, n <= 3)")
    res_n1 = RuleResult("N1", "a safe constructor without an OwnedLockable bound returns a collection exactly when the leaf addresses of "
                              "its data are pairwise distinct (data model: all n^n address assignments, n <= 3)")
    for f, adt in constructors(ctx):
        checked = not f.get("unsafe") and not _has_owned_bound(f)
        bad_l2 = bad_n1 = None
        undec = None
        built = rejected = 0
        for n in ctor_sizes():
            for addrs in _address_functions(n) if n else [[]]:
                paths, err, I = run_constructor(ctx, f, n, addrs)
                if err:
                    undec = err
                    break
                distinct = len(set(addrs)) == len(addrs)
                for p in paths:
                    if p.kind != "ret":
                        continue
                    colls = _find_colls(p.value, [])
                    if colls:
                        built += 1
                        c = colls[0]
                        if c[2] in SORTING:
                            from rules_struct import lock_list_path, descend
                            lp = lock_list_path(ctx, c[2])
                            lv = descend(c, lp) if lp is not None else None
                            view = lv if lv and lv[0] == "agg" and lv[1] == "slice" else None
                            if view is None:
                                bad_l2 = "the lock list stored in %s is not built from get_ptrs of the data (%r)" % (c[2].split("::")[-1], lv)
                            else:
                                items = listmodel.items_of(I, p.st, view)
                                idx = [listmodel.addr_of(I, x) for x in items] if items is not None else None
                                leaf = sorted(_leaf_of(I, x) for x in items) if items is not None else None
                                if leaf != list(range(n)):
                                    bad_l2 = "the stored lock list holds leaves %s of the %d leaves of the data" % (leaf, n)
                                elif idx != sorted(idx):
                                    bad_l2 = "leaves with addresses %s are stored in the order %s: not ascending by address" % (addrs, idx)
                        if checked and not distinct:
                            bad_n1 = "a collection is returned although two leaves share an address (addresses %s)" % addrs
                    else:
                        rejected += 1
                        if checked and distinct:
                            bad_n1 = "no collection is returned although all leaf addresses are distinct (addresses %s)" % addrs
                if bad_l2 or bad_n1:
                    break
            if undec or bad_l2 or bad_n1:
                break
        name = f["path"]
        if undec:
            (res_l2 if adt in SORTING else res_n1).undecided(name, "analysis", undec, *_floc(f))
            continue
        if adt in SORTING:
            if bad_l2:
                res_l2.bad(Violation("L2", name, "sorted-list", bad_l2, *_floc(f)))
            elif built:
                res_l2.ok("%s stores the sorted leaf list" % name)
        if checked:
            if bad_n1:
                res_n1.bad(Violation("N1", name, "constructs-collection", bad_n1, *_floc(f)))
            elif built == 0:
                res_n1.bad(Violation("N1", name, "constructs-collection", "checked constructor never returns a collection", *_floc(f)))
            else:
                res_n1.ok("%s: exact duplicate check" % name)
        elif built:
            res_n1.ok("%s: %s" % (name, "unsafe" if f.get("unsafe") else "requires OwnedLockable"))
    res_l2.need(4, "constructors of sorting collections")
    res_n1.need(12, "functions constructing collections")
    return res_l2, res_n1


def _leaf_of(I, v):
    loc = I.oploc.get(v[1]) if v[0] == "op" else (v[1] if v[0] == "ref" else None)
    if loc and loc[0] == "O" and loc[1] == LID and loc[2] and loc[2][0].startswith("["):
        return int(loc[2][0][1:-1])
    return -1


_ct_cache = {}


def rule_L2(ctx, R):
    k = id(ctx)
    if k not in _ct_cache:
        _ct_cache[k] = rule_CT(ctx, R)
    return _ct_cache[k][0]


def rule_N1(ctx, R):
    k = id(ctx)
    if k not in _ct_cache:
        _ct_cache[k] = rule_CT(ctx, R)
    return _ct_cache[k][1]
