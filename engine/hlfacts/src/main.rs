//! hlfacts: rustc_private driver that dumps the type-checked program of the
//! crate `happylock` (ADTs, traits, impls, signatures, predicates, MIR with
//! resolved callees) as one JSON document to $HLFACTS_OUT.
//!
//! Used as RUSTC_WORKSPACE_WRAPPER: argv = [hlfacts, <rustc>, args...].
#![feature(rustc_private)]

extern crate rustc_abi;
extern crate rustc_driver;
extern crate rustc_hir;
extern crate rustc_infer;
extern crate rustc_interface;
extern crate rustc_middle;
extern crate rustc_span;
extern crate rustc_trait_selection;

mod dump;
mod json;

use rustc_driver::Compilation;
use rustc_interface::interface::Compiler;
use rustc_middle::ty::TyCtxt;

struct Cb;

impl rustc_driver::Callbacks for Cb {
	fn after_analysis<'tcx>(&mut self, _c: &Compiler, tcx: TyCtxt<'tcx>) -> Compilation {
		let target = std::env::var("HLFACTS_CRATE").unwrap_or_else(|_| "happylock".to_string());
		let name = tcx.crate_name(rustc_hir::def_id::LOCAL_CRATE);
		if name.as_str() == target {
			if let Ok(out) = std::env::var("HLFACTS_OUT") {
				let j = dump::dump_crate(tcx);
				let mut s = String::with_capacity(1 << 22);
				j.write(&mut s);
				s.push('\n');
				// one write per process
				std::fs::write(&out, s).expect("hlfacts: cannot write HLFACTS_OUT");
			}
		}
		Compilation::Continue
	}
}

fn main() {
	let mut args: Vec<String> = std::env::args().collect();
	// wrapper protocol: argv[1] is the path of the real rustc
	if args.len() > 1 && (args[1].ends_with("rustc") || args[1].contains("/rustc")) {
		args.remove(1);
	}
	let code = rustc_driver::catch_with_exit_code(|| {
		rustc_driver::run_compiler(&args, &mut Cb);
	});
	if code == std::process::ExitCode::SUCCESS {
		std::process::exit(0);
	}
	std::process::exit(1);
}
