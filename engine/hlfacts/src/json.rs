//! Minimal JSON value + writer (no dependencies).
use std::fmt::Write;

#[derive(Clone, Debug)]
pub enum J {
	Null,
	Bool(bool),
	Num(i64),
	Str(String),
	Arr(Vec<J>),
	Obj(Vec<(String, J)>),
}

impl J {
	pub fn s(x: impl Into<String>) -> J {
		J::Str(x.into())
	}
	pub fn obj() -> J {
		J::Obj(Vec::new())
	}
	pub fn set(mut self, k: &str, v: J) -> J {
		if let J::Obj(ref mut o) = self {
			o.push((k.to_string(), v));
		}
		self
	}
	pub fn put(&mut self, k: &str, v: J) {
		if let J::Obj(ref mut o) = self {
			o.push((k.to_string(), v));
		}
	}
	pub fn write(&self, out: &mut String) {
		match self {
			J::Null => out.push_str("null"),
			J::Bool(b) => out.push_str(if *b { "true" } else { "false" }),
			J::Num(n) => {
				let _ = write!(out, "{}", n);
			}
			J::Str(s) => write_str(s, out),
			J::Arr(a) => {
				out.push('[');
				for (i, x) in a.iter().enumerate() {
					if i > 0 {
						out.push(',');
					}
					x.write(out);
				}
				out.push(']');
			}
			J::Obj(o) => {
				out.push('{');
				for (i, (k, v)) in o.iter().enumerate() {
					if i > 0 {
						out.push(',');
					}
					write_str(k, out);
					out.push(':');
					v.write(out);
				}
				out.push('}');
			}
		}
	}
}

fn write_str(s: &str, out: &mut String) {
	out.push('"');
	for c in s.chars() {
		match c {
			'"' => out.push_str("\\\""),
			'\\' => out.push_str("\\\\"),
			'\n' => out.push_str("\\n"),
			'\r' => out.push_str("\\r"),
			'\t' => out.push_str("\\t"),
			c if (c as u32) < 0x20 => {
				let _ = write!(out, "\\u{:04x}", c as u32);
			}
			c => out.push(c),
		}
	}
	out.push('"');
}

impl From<bool> for J {
	fn from(b: bool) -> J {
		J::Bool(b)
	}
}
impl From<usize> for J {
	fn from(n: usize) -> J {
		J::Num(n as i64)
	}
}
impl From<u32> for J {
	fn from(n: u32) -> J {
		J::Num(n as i64)
	}
}
impl From<&str> for J {
	fn from(s: &str) -> J {
		J::Str(s.to_string())
	}
}
impl From<String> for J {
	fn from(s: String) -> J {
		J::Str(s)
	}
}
impl<T: Into<J>> From<Vec<T>> for J {
	fn from(v: Vec<T>) -> J {
		J::Arr(v.into_iter().map(Into::into).collect())
	}
}
impl<T: Into<J>> From<Option<T>> for J {
	fn from(v: Option<T>) -> J {
		match v {
			Some(x) => x.into(),
			None => J::Null,
		}
	}
}
