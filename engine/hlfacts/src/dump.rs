use crate::json::J;
use rustc_hir::def::DefKind;
use rustc_hir::def_id::{DefId, LocalDefId};
use rustc_middle::mir::{
	self, AggregateKind, BasicBlock, Body, Operand, Place, ProjectionElem, Rvalue, StatementKind,
	TerminatorKind, UnwindAction,
};
use rustc_middle::ty::{self, GenericArgKind, Ty, TyCtxt};
use rustc_span::Span;

pub fn dump_crate<'tcx>(tcx: TyCtxt<'tcx>) -> J {
	let mut adts = Vec::new();
	let mut traits = Vec::new();
	let mut impls = Vec::new();
	let mut fns = Vec::new();
	let mut statics = Vec::new();
	let mut aliases = Vec::new();
	let mut consts = Vec::new();

	let ev = tcx.effective_visibilities(());

	for ldid in tcx.iter_local_def_id() {
		let did = ldid.to_def_id();
		match tcx.def_kind(did) {
			DefKind::Struct | DefKind::Enum | DefKind::Union => {
				adts.push(dump_adt(tcx, ldid, ev.is_reachable(ldid)).set("exported", ev.is_exported(ldid).into()));
			}
			DefKind::Trait => {
				traits.push(dump_trait(tcx, ldid, ev.is_reachable(ldid)).set("exported", ev.is_exported(ldid).into()));
			}
			DefKind::Impl { .. } => {
				impls.push(dump_impl(tcx, ldid));
			}
			DefKind::Fn | DefKind::AssocFn | DefKind::Closure => {
				fns.push(dump_fn(tcx, ldid, ev.is_reachable(ldid)).set("exported", ev.is_exported(ldid).into()));
			}
			DefKind::Static { .. } => {
				let mut o = J::obj();
				o.put("path", J::s(tcx.def_path_str(did)));
				o.put("thread_local", tcx.is_thread_local_static(did).into());
				o.put("ty", ty_j(tcx, tcx.type_of(did).instantiate_identity().skip_norm_wip()));
				o.put("span", span_j(tcx, tcx.def_span(did)));
				statics.push(o);
			}
			DefKind::Const { .. } | DefKind::AssocConst { .. } => {
				// named constants of scalar type without generic parameters, evaluated (unoptimised MIR names them)
				let t = tcx.type_of(did).instantiate_identity().skip_norm_wip();
				let scalar = t.is_bool() || t.is_integral() || t.is_char();
				if scalar && tcx.generics_of(did).is_empty() && tcx.generics_of(did).parent_count == 0 {
					if let Ok(v) = tcx.const_eval_poly(did) {
						if let Some(si) = v.try_to_scalar_int() {
							let mut o = J::obj();
							o.put("path", J::s(tcx.def_path_str(did)));
							o.put("ty", ty_j(tcx, t));
							let bits = si.to_bits(si.size());
							o.put("bits", J::s(format!("{}", bits)));
							consts.push(o);
						}
					}
				}
			}
			DefKind::TyAlias => {
				let mut o = J::obj();
				o.put("path", J::s(tcx.def_path_str(did)));
				o.put("reachable", ev.is_reachable(ldid).into());
				o.put("ty", ty_j(tcx, tcx.type_of(did).instantiate_identity().skip_norm_wip()));
				aliases.push(o);
			}
			_ => {}
		}
	}

	let mut root = J::obj();
	root.put("crate", J::s(tcx.crate_name(rustc_hir::def_id::LOCAL_CRATE).as_str()));
	root.put("schema", J::Num(1));
	root.put("adts", J::Arr(adts));
	root.put("traits", J::Arr(traits));
	root.put("impls", J::Arr(impls));
	root.put("fns", J::Arr(fns));
	root.put("statics", J::Arr(statics));
	root.put("aliases", J::Arr(aliases));
	root.put("consts", J::Arr(consts));
	root.put("probes", probes(tcx));
	root
}

fn span_j<'tcx>(tcx: TyCtxt<'tcx>, sp: Span) -> J {
	let sm = tcx.sess.source_map();
	let lo = sm.lookup_char_pos(sp.lo());
	let mut o = J::obj();
	o.put("file", J::s(format!("{}", lo.file.name.prefer_local_unconditionally())));
	o.put("line", lo.line.into());
	o.put("exp", sp.from_expansion().into());
	o
}

fn vis_j<'tcx>(tcx: TyCtxt<'tcx>, did: DefId) -> J {
	match tcx.visibility(did) {
		ty::Visibility::Public => J::s("pub"),
		ty::Visibility::Restricted(m) => {
			if m.is_crate_root() {
				J::s("crate")
			} else {
				J::s(format!("in {}", tcx.def_path_str(m)))
			}
		}
	}
}

fn region_j<'tcx>(r: ty::Region<'tcx>) -> J {
	let mut o = J::obj();
	match r.kind() {
		ty::ReEarlyParam(p) => {
			o.put("k", J::s("early"));
			o.put("name", J::s(p.name.as_str()));
			o.put("index", p.index.into());
		}
		ty::ReBound(idx, br) => {
			o.put("k", J::s("bound"));
			o.put("s", J::s(format!("{:?}/{:?}", idx, br)));
		}
		ty::ReLateParam(lp) => {
			o.put("k", J::s("late"));
			o.put("s", J::s(format!("{:?}", lp.kind)));
		}
		ty::ReStatic => {
			o.put("k", J::s("static"));
		}
		ty::ReErased => {
			o.put("k", J::s("erased"));
		}
		_ => {
			o.put("k", J::s("other"));
			o.put("s", J::s(format!("{:?}", r)));
		}
	}
	o
}

fn args_j<'tcx>(tcx: TyCtxt<'tcx>, args: &[ty::GenericArg<'tcx>]) -> J {
	let mut v = Vec::new();
	for a in args {
		match a.kind() {
			GenericArgKind::Type(t) => v.push(ty_j(tcx, t)),
			GenericArgKind::Lifetime(r) => v.push(J::obj().set("k", J::s("region")).set("r", region_j(r))),
			GenericArgKind::Const(c) => {
				v.push(J::obj().set("k", J::s("const")).set("s", J::s(format!("{}", c))))
			}
		}
	}
	J::Arr(v)
}

pub fn ty_j<'tcx>(tcx: TyCtxt<'tcx>, t: Ty<'tcx>) -> J {
	let mut o = J::obj();
	match t.kind() {
		ty::Bool | ty::Char | ty::Int(_) | ty::Uint(_) | ty::Float(_) | ty::Str => {
			o.put("k", J::s("prim"));
			o.put("name", J::s(format!("{}", t)));
		}
		ty::Never => {
			o.put("k", J::s("never"));
		}
		ty::Adt(def, args) => {
			o.put("k", J::s("adt"));
			o.put("path", J::s(tcx.def_path_str(def.did())));
			o.put("local", def.did().is_local().into());
			o.put("args", args_j(tcx, args));
		}
		ty::Ref(r, inner, m) => {
			o.put("k", J::s("ref"));
			o.put("mut", m.is_mut().into());
			o.put("region", region_j(*r));
			o.put("ty", ty_j(tcx, *inner));
		}
		ty::RawPtr(inner, m) => {
			o.put("k", J::s("ptr"));
			o.put("mut", m.is_mut().into());
			o.put("ty", ty_j(tcx, *inner));
		}
		ty::Param(p) => {
			o.put("k", J::s("param"));
			o.put("name", J::s(p.name.as_str()));
			o.put("index", p.index.into());
		}
		ty::Alias(a) => {
			let adid = a.kind.def_id();
			o.put("k", J::s("alias"));
			o.put("kind", J::s(a.kind.descr()));
			o.put("path", J::s(tcx.def_path_str(adid)));
			o.put("name", J::s(tcx.opt_item_name(adid).map(|n| n.to_string()).unwrap_or_else(|| String::from("<opaque>")).as_str()));
			o.put("args", args_j(tcx, a.args));
		}
		ty::Tuple(ts) => {
			o.put("k", J::s("tuple"));
			o.put("elems", J::Arr(ts.iter().map(|x| ty_j(tcx, x)).collect()));
		}
		ty::Array(inner, len) => {
			o.put("k", J::s("array"));
			o.put("ty", ty_j(tcx, *inner));
			o.put("len", J::s(format!("{}", len)));
		}
		ty::Slice(inner) => {
			o.put("k", J::s("slice"));
			o.put("ty", ty_j(tcx, *inner));
		}
		ty::Dynamic(preds, r) => {
			o.put("k", J::s("dyn"));
			o.put("region", region_j(*r));
			let mut v = Vec::new();
			for p in preds.iter() {
				v.push(J::s(format!("{:?}", p.skip_binder())));
			}
			o.put("preds", J::Arr(v));
			if let Some(p) = preds.principal_def_id() {
				o.put("principal", J::s(tcx.def_path_str(p)));
			}
		}
		ty::Closure(def, args) => {
			o.put("k", J::s("closure"));
			o.put("def", J::s(tcx.def_path_str(*def)));
			o.put("id", J::s(format!("{:?}", def)));
			let ca = args.as_closure();
			o.put("kind", J::s(format!("{:?}", ca.kind())));
			o.put(
				"upvars",
				J::Arr(ca.upvar_tys().iter().map(|x| ty_j(tcx, x)).collect()),
			);
		}
		ty::FnDef(def, args) => {
			o.put("k", J::s("fndef"));
			o.put("def", J::s(tcx.def_path_str(*def)));
			o.put("id", J::s(format!("{:?}", def)));
			o.put("args", args_j(tcx, args));
			if let rustc_hir::def::DefKind::Ctor(of, _) = tcx.def_kind(*def) {
				// constructor of a tuple struct / tuple variant used as a function value
				let parent = tcx.parent(*def);
				match of {
					rustc_hir::def::CtorOf::Struct => {
						o.put("ctor_adt", J::s(tcx.def_path_str(parent)));
						o.put("ctor_variant", 0usize.into());
					}
					rustc_hir::def::CtorOf::Variant => {
						let adt = tcx.parent(parent);
						o.put("ctor_adt", J::s(tcx.def_path_str(adt)));
						let idx = tcx.adt_def(adt).variant_index_with_id(parent).as_usize();
						o.put("ctor_variant", idx.into());
					}
				}
			}
			if let Some(tr) = tcx.trait_of_assoc(*def) {
				o.put("trait", J::s(tcx.def_path_str(tr)));
			}
		}
		ty::FnPtr(..) => {
			o.put("k", J::s("fnptr"));
		}
		_ => {
			o.put("k", J::s("other"));
		}
	}
	o.put("s", J::s(format!("{}", t)));
	o
}

fn generics_j<'tcx>(tcx: TyCtxt<'tcx>, did: DefId) -> J {
	let g = tcx.generics_of(did);
	let mut v = Vec::new();
	let mut cur = Some(g);
	let mut chain = Vec::new();
	while let Some(g) = cur {
		chain.push(g);
		cur = g.parent.map(|p| tcx.generics_of(p));
	}
	chain.reverse();
	for g in chain {
		for p in &g.own_params {
			let kind = match p.kind {
				ty::GenericParamDefKind::Lifetime => "lifetime",
				ty::GenericParamDefKind::Type { .. } => "type",
				ty::GenericParamDefKind::Const { .. } => "const",
			};
			v.push(
				J::obj()
					.set("name", J::s(p.name.as_str()))
					.set("index", p.index.into())
					.set("kind", J::s(kind)),
			);
		}
	}
	J::Arr(v)
}

fn clause_j<'tcx>(tcx: TyCtxt<'tcx>, c: ty::Clause<'tcx>) -> J {
	let mut o = J::obj();
	let kind = c.kind();
	o.put("bound_vars", J::s(format!("{:?}", kind.bound_vars())));
	o.put("nbound", kind.bound_vars().len().into());
	match kind.skip_binder() {
		ty::ClauseKind::Trait(tp) => {
			o.put("k", J::s("trait"));
			o.put("trait", J::s(tcx.def_path_str(tp.trait_ref.def_id)));
			o.put("self", ty_j(tcx, tp.trait_ref.self_ty()));
			o.put("args", args_j(tcx, &tp.trait_ref.args[1..]));
			o.put("polarity", J::s(format!("{:?}", tp.polarity)));
		}
		ty::ClauseKind::Projection(pp) => {
			o.put("k", J::s("projection"));
			o.put("item", J::s(tcx.def_path_str(pp.projection_term.def_id())));
			o.put("args", args_j(tcx, pp.projection_term.args));
			o.put("term", J::s(format!("{}", pp.term)));
			if let Some(t) = pp.term.as_type() {
				o.put("term_ty", ty_j(tcx, t));
			}
		}
		ty::ClauseKind::TypeOutlives(op) => {
			o.put("k", J::s("type_outlives"));
			o.put("ty", ty_j(tcx, op.0));
			o.put("region", region_j(op.1));
		}
		ty::ClauseKind::RegionOutlives(op) => {
			o.put("k", J::s("region_outlives"));
			o.put("a", region_j(op.0));
			o.put("b", region_j(op.1));
		}
		other => {
			o.put("k", J::s("other"));
			o.put("s", J::s(format!("{:?}", other)));
		}
	}
	o.put("s", J::s(format!("{}", c)));
	o
}

fn predicates_j<'tcx>(tcx: TyCtxt<'tcx>, did: DefId) -> J {
	let preds = tcx.predicates_of(did).instantiate_identity(tcx);
	let mut v = Vec::new();
	for c in preds.predicates {
		v.push(clause_j(tcx, c.skip_norm_wip()));
	}
	J::Arr(v)
}

fn dump_adt<'tcx>(tcx: TyCtxt<'tcx>, ldid: LocalDefId, reachable: bool) -> J {
	let did = ldid.to_def_id();
	let adt = tcx.adt_def(did);
	let mut o = J::obj();
	o.put("path", J::s(tcx.def_path_str(did)));
	o.put("kind", J::s(format!("{:?}", adt.adt_kind())));
	o.put("vis", vis_j(tcx, did));
	o.put("reachable", reachable.into());
	o.put("generics", generics_j(tcx, did));
	o.put("predicates", predicates_j(tcx, did));
	o.put("span", span_j(tcx, tcx.def_span(did)));
	let mut variants = Vec::new();
	for v in adt.variants() {
		let mut vo = J::obj();
		vo.put("name", J::s(v.name.as_str()));
		let mut fields = Vec::new();
		for f in &v.fields {
			let fty = tcx.type_of(f.did).instantiate_identity().skip_norm_wip();
			fields.push(
				J::obj()
					.set("name", J::s(f.name.as_str()))
					.set("vis", vis_j(tcx, f.did))
					.set("ty", ty_j(tcx, fty)),
			);
		}
		vo.put("fields", J::Arr(fields));
		variants.push(vo);
	}
	o.put("variants", J::Arr(variants));
	match adt.destructor(tcx) {
		Some(d) => o.put("drop_fn", J::s(tcx.def_path_str(d.did))),
		None => o.put("drop_fn", J::Null),
	}
	o
}

fn dump_trait<'tcx>(tcx: TyCtxt<'tcx>, ldid: LocalDefId, reachable: bool) -> J {
	let did = ldid.to_def_id();
	let td = tcx.trait_def(did);
	let mut o = J::obj();
	o.put("path", J::s(tcx.def_path_str(did)));
	o.put("vis", vis_j(tcx, did));
	o.put("reachable", reachable.into());
	o.put("unsafe", td.safety.is_unsafe().into());
	o.put("span", span_j(tcx, tcx.def_span(did)));
	let mut sup = Vec::new();
	for c in tcx.explicit_super_predicates_of(did).iter_identity_copied() {
		let (c, _) = c.skip_norm_wip();
		if let ty::ClauseKind::Trait(tp) = c.kind().skip_binder() {
			sup.push(J::s(tcx.def_path_str(tp.trait_ref.def_id)));
		}
	}
	o.put("supertraits", J::Arr(sup));
	let mut items = Vec::new();
	for it in tcx.associated_items(did).in_definition_order() {
		let mut io = J::obj();
		io.put("name", J::s(it.name().as_str()));
		io.put("kind", J::s(format!("{:?}", it.kind)));
		io.put("path", J::s(tcx.def_path_str(it.def_id)));
		if let ty::AssocKind::Fn { .. } = it.kind {
			let sig = tcx.fn_sig(it.def_id).instantiate_identity().skip_norm_wip().skip_binder();
			io.put("unsafe", sig.safety().is_unsafe().into());
		}
		items.push(io);
	}
	o.put("items", J::Arr(items));
	o
}

fn dump_impl<'tcx>(tcx: TyCtxt<'tcx>, ldid: LocalDefId) -> J {
	let did = ldid.to_def_id();
	let mut o = J::obj();
	o.put("id", J::s(format!("{:?}", did)));
	o.put("span", span_j(tcx, tcx.def_span(did)));
	let self_ty = tcx.type_of(did).instantiate_identity().skip_norm_wip();
	o.put("self_ty", ty_j(tcx, self_ty));
	o.put("generics", generics_j(tcx, did));
	o.put("predicates", predicates_j(tcx, did));
	if tcx.impl_is_of_trait(did) {
		let header = tcx.impl_trait_header(did);
		let tr = header.trait_ref.instantiate_identity().skip_norm_wip();
		o.put("trait", J::s(tcx.def_path_str(tr.def_id)));
		o.put("trait_local", tr.def_id.is_local().into());
		o.put("trait_args", args_j(tcx, &tr.args[1..]));
		o.put("unsafe", header.safety.is_unsafe().into());
		o.put("polarity", J::s(format!("{:?}", header.polarity)));
	} else {
		o.put("trait", J::Null);
	}
	let mut items = Vec::new();
	for it in tcx.associated_items(did).in_definition_order() {
		let mut io = J::obj();
		io.put("name", J::s(it.name().as_str()));
		io.put("kind", J::s(format!("{:?}", it.kind)));
		io.put("path", J::s(tcx.def_path_str(it.def_id)));
		io.put("id", J::s(format!("{:?}", it.def_id)));
		if let ty::AssocKind::Type { .. } = it.kind {
			let t = tcx.type_of(it.def_id).instantiate_identity().skip_norm_wip();
			io.put("ty", ty_j(tcx, t));
		}
		items.push(io);
	}
	o.put("items", J::Arr(items));
	o
}

fn dump_fn<'tcx>(tcx: TyCtxt<'tcx>, ldid: LocalDefId, reachable: bool) -> J {
	let did = ldid.to_def_id();
	let kind = tcx.def_kind(did);
	let mut o = J::obj();
	o.put("path", J::s(tcx.def_path_str(did)));
	o.put("id", J::s(format!("{:?}", did)));
	o.put("kind", J::s(format!("{:?}", kind)));
	o.put("span", span_j(tcx, tcx.def_span(did)));
	o.put("generics", generics_j(tcx, did));
	if let Some(p) = tcx.opt_parent(did) {
		o.put("parent", J::s(format!("{:?}", p)));
		o.put("parent_path", J::s(tcx.def_path_str(p)));
		o.put("parent_kind", J::s(format!("{:?}", tcx.def_kind(p))));
	}
	if matches!(kind, DefKind::Fn | DefKind::AssocFn) {
		o.put("vis", vis_j(tcx, did));
		o.put("reachable", reachable.into());
		o.put("predicates", predicates_j(tcx, did));
		let sig = tcx.fn_sig(did).instantiate_identity().skip_norm_wip();
		o.put("sig_bound_vars", J::s(format!("{:?}", sig.bound_vars())));
		let sig = sig.skip_binder();
		o.put("unsafe", sig.safety().is_unsafe().into());
		o.put("const", tcx.is_const_fn(did).into());
		o.put(
			"inputs",
			J::Arr(sig.inputs().iter().map(|t| ty_j(tcx, *t)).collect()),
		);
		o.put("output", ty_j(tcx, sig.output()));
		if kind == DefKind::AssocFn {
			let ai = tcx.associated_item(did);
			o.put("has_self", ai.is_method().into());
			if let Some(ti) = ai.trait_item_def_id() {
				o.put("trait_item", J::s(tcx.def_path_str(ti)));
			}
			let cont = ai.container_id(tcx);
			o.put("container", J::s(format!("{:?}", cont)));
			o.put("container_kind", J::s(format!("{:?}", tcx.def_kind(cont))));
		}
		// attributes of interest
	} else {
		// closure
		let cty = tcx.type_of(did).instantiate_identity().skip_norm_wip();
		o.put("closure_ty", ty_j(tcx, cty));
	}
	if tcx.is_mir_available(did) {
		let body = tcx.optimized_mir(did);
		o.put("mir", mir_j(tcx, ldid, body));
		// promoted constants (`&CONST_EXPR` lifted out of the body): small bodies of their own, referenced by
		// constant operands printed as `<path>::promoted[i]`
		let proms = tcx.promoted_mir(did);
		if !proms.is_empty() {
			o.put("promoted", J::Arr(proms.iter().map(|b| mir_j(tcx, ldid, b)).collect()));
		}
	}
	o
}

fn place_j<'tcx>(p: &Place<'tcx>) -> J {
	let mut proj = Vec::new();
	for e in p.projection.iter() {
		match e {
			ProjectionElem::Deref => proj.push(J::s("*")),
			ProjectionElem::Field(f, _) => proj.push(J::Num(f.index() as i64)),
			ProjectionElem::Index(l) => proj.push(J::s(format!("[_{}]", l.index()))),
			ProjectionElem::ConstantIndex { offset, from_end, .. } => {
				proj.push(J::s(format!("[c{}{}]", if from_end { "-" } else { "" }, offset)))
			}
			ProjectionElem::Subslice { from, to, from_end } => {
				proj.push(J::s(format!("[{}..{}{}]", from, if from_end { "-" } else { "" }, to)))
			}
			ProjectionElem::Downcast(name, idx) => proj.push(J::s(format!(
				"as {}#{}",
				name.map(|n| n.to_string()).unwrap_or_default(),
				idx.index()
			))),
			ProjectionElem::OpaqueCast(_) => proj.push(J::s("opaque")),
			ProjectionElem::UnwrapUnsafeBinder(_) => proj.push(J::s("unwrap_binder")),
		}
	}
	J::obj().set("l", J::Num(p.local.index() as i64)).set("p", J::Arr(proj))
}

fn operand_j<'tcx>(tcx: TyCtxt<'tcx>, body: &Body<'tcx>, op: &Operand<'tcx>) -> J {
	match op {
		Operand::Copy(p) => J::obj().set("k", J::s("copy")).set("place", place_j(p)),
		Operand::Move(p) => J::obj().set("k", J::s("move")).set("place", place_j(p)),
		Operand::Constant(c) => {
			let t = c.const_.ty();
			let mut o = J::obj().set("k", J::s("const")).set("s", J::s(format!("{}", c.const_)));
			o.put("ty", ty_j(tcx, t));
			o
		}
		#[allow(unreachable_patterns)]
		_ => {
			let _ = body;
			J::obj().set("k", J::s("other")).set("s", J::s(format!("{:?}", op)))
		}
	}
}

fn rvalue_j<'tcx>(tcx: TyCtxt<'tcx>, body: &Body<'tcx>, rv: &Rvalue<'tcx>) -> J {
	let mut o = J::obj();
	match rv {
		Rvalue::Use(op, ..) => {
			o.put("k", J::s("use"));
			o.put("op", operand_j(tcx, body, op));
		}
		Rvalue::Ref(_, bk, p) => {
			o.put("k", J::s("ref"));
			o.put("mut", matches!(bk, mir::BorrowKind::Mut { .. }).into());
			o.put("place", place_j(p));
		}
		Rvalue::RawPtr(kind, p) => {
			o.put("k", J::s("rawptr"));
			o.put("kind", J::s(format!("{:?}", kind)));
			o.put("place", place_j(p));
		}
		Rvalue::Cast(kind, op, t) => {
			o.put("k", J::s("cast"));
			o.put("kind", J::s(format!("{:?}", kind)));
			o.put("op", operand_j(tcx, body, op));
			o.put("ty", ty_j(tcx, *t));
		}
		Rvalue::BinaryOp(bop, ops) => {
			o.put("k", J::s("binop"));
			o.put("op", J::s(format!("{:?}", bop)));
			o.put("a", operand_j(tcx, body, &ops.0));
			o.put("b", operand_j(tcx, body, &ops.1));
		}
		Rvalue::UnaryOp(uop, op) => {
			o.put("k", J::s("unop"));
			o.put("op", J::s(format!("{:?}", uop)));
			o.put("a", operand_j(tcx, body, op));
		}
		Rvalue::Discriminant(p) => {
			o.put("k", J::s("discr"));
			o.put("place", place_j(p));
		}
		Rvalue::Aggregate(kind, ops) => {
			o.put("k", J::s("aggregate"));
			match &**kind {
				AggregateKind::Adt(did, variant, args, _, active) => {
					o.put("agg", J::s("adt"));
					o.put("path", J::s(tcx.def_path_str(*did)));
					o.put("variant", J::Num(variant.index() as i64));
					let adt = tcx.adt_def(*did);
					o.put("variant_name", J::s(adt.variant(*variant).name.as_str()));
					o.put("args", args_j(tcx, args));
					if let Some(a) = active {
						o.put("active_field", J::Num(a.index() as i64));
					}
				}
				AggregateKind::Tuple => o.put("agg", J::s("tuple")),
				AggregateKind::Array(t) => {
					o.put("agg", J::s("array"));
					o.put("ty", ty_j(tcx, *t));
				}
				AggregateKind::Closure(did, _args) => {
					o.put("agg", J::s("closure"));
					o.put("def", J::s(tcx.def_path_str(*did)));
					o.put("id", J::s(format!("{:?}", did)));
				}
				other => {
					o.put("agg", J::s("other"));
					o.put("s", J::s(format!("{:?}", other)));
				}
			}
			o.put(
				"ops",
				J::Arr(ops.iter().map(|x| operand_j(tcx, body, x)).collect()),
			);
		}
		Rvalue::CopyForDeref(p) => {
			o.put("k", J::s("use"));
			o.put("op", J::obj().set("k", J::s("copy")).set("place", place_j(p)));
		}
		Rvalue::Repeat(op, n) => {
			o.put("k", J::s("repeat"));
			o.put("op", operand_j(tcx, body, op));
			o.put("n", J::s(format!("{}", n)));
		}
		other => {
			o.put("k", J::s("other"));
			o.put("s", J::s(format!("{:?}", other)));
		}
	}
	o
}

fn unwind_j(u: &UnwindAction) -> J {
	match u {
		UnwindAction::Continue => J::s("continue"),
		UnwindAction::Unreachable => J::s("unreachable"),
		UnwindAction::Terminate(_) => J::s("terminate"),
		UnwindAction::Cleanup(bb) => J::Num(bb.index() as i64),
	}
}

fn bb_j(bb: BasicBlock) -> J {
	J::Num(bb.index() as i64)
}

fn callee_j<'tcx>(tcx: TyCtxt<'tcx>, owner: LocalDefId, body: &Body<'tcx>, func: &Operand<'tcx>) -> J {
	let fty = func.ty(&body.local_decls, tcx);
	let mut o = J::obj();
	match fty.kind() {
		ty::FnDef(def, args) => {
			o.put("k", J::s("fndef"));
			o.put("def", J::s(tcx.def_path_str(*def)));
			o.put("id", J::s(format!("{:?}", def)));
			o.put("local", def.is_local().into());
			o.put("name", J::s(tcx.opt_item_name(*def).map(|n| n.to_string()).unwrap_or_else(|| String::from("<anon>")).as_str()));
			o.put("args", args_j(tcx, args));
			o.put("s", J::s(tcx.def_path_str_with_args(*def, args)));
			if let Some(tr) = tcx.trait_of_assoc(*def) {
				o.put("trait", J::s(tcx.def_path_str(tr)));
				if let Some(st) = args.get(0).and_then(|a| a.as_type()) {
					o.put("self_ty", ty_j(tcx, st));
				}
			}
			if let Some(im) = tcx.impl_of_assoc(*def) {
				let st = tcx.type_of(im).instantiate_identity().skip_norm_wip();
				o.put("impl_self", ty_j(tcx, st));
			}
			// resolution in the post-analysis typing environment of the owner
			let tenv = ty::TypingEnv::post_analysis(tcx, owner.to_def_id());
			match ty::Instance::try_resolve(tcx, tenv, *def, args) {
				Ok(Some(inst)) => {
					let rd = inst.def_id();
					let mut r = J::obj();
					r.put("def", J::s(tcx.def_path_str(rd)));
					r.put("id", J::s(format!("{:?}", rd)));
					r.put("local", rd.is_local().into());
					r.put("kind", J::s(instance_kind_name(&inst.def)));
					r.put("args", args_j(tcx, inst.args));
					o.put("resolved", r);
				}
				Ok(None) => o.put("resolved", J::Null),
				Err(_) => o.put("resolved", J::s("error")),
			}
		}
		ty::FnPtr(..) => {
			o.put("k", J::s("fnptr"));
			o.put("op", operand_j(tcx, body, func));
		}
		_ => {
			o.put("k", J::s("other"));
			o.put("s", J::s(format!("{}", fty)));
		}
	}
	o
}

fn instance_kind_name<'tcx>(k: &ty::InstanceKind<'tcx>) -> String {
	let s = format!("{:?}", k);
	match s.find('(') {
		Some(i) => s[..i].to_string(),
		None => s,
	}
}

fn mir_j<'tcx>(tcx: TyCtxt<'tcx>, owner: LocalDefId, body: &Body<'tcx>) -> J {
	let mut o = J::obj();
	o.put("arg_count", body.arg_count.into());
	let mut locals = Vec::new();
	for (l, d) in body.local_decls.iter_enumerated() {
		locals.push(
			J::obj()
				.set("i", J::Num(l.index() as i64))
				.set("ty", ty_j(tcx, d.ty)),
		);
	}
	o.put("locals", J::Arr(locals));
	let mut dbg = Vec::new();
	for v in &body.var_debug_info {
		let mut d = J::obj().set("name", J::s(v.name.as_str()));
		match &v.value {
			mir::VarDebugInfoContents::Place(p) => d.put("place", place_j(p)),
			mir::VarDebugInfoContents::Const(c) => d.put("const", J::s(format!("{}", c.const_))),
		}
		dbg.push(d);
	}
	o.put("debug", J::Arr(dbg));
	let mut blocks = Vec::new();
	for (bb, data) in body.basic_blocks.iter_enumerated() {
		let mut b = J::obj();
		b.put("i", bb_j(bb));
		b.put("cleanup", data.is_cleanup.into());
		let mut stmts = Vec::new();
		for st in &data.statements {
			match &st.kind {
				StatementKind::Assign(bx) => {
					let (p, rv) = &**bx;
					stmts.push(
						J::obj()
							.set("k", J::s("assign"))
							.set("dst", place_j(p))
							.set("rv", rvalue_j(tcx, body, rv))
							.set("line", line_of(tcx, st.source_info.span)),
					);
				}
				StatementKind::SetDiscriminant { place, variant_index } => {
					stmts.push(
						J::obj()
							.set("k", J::s("setdiscr"))
							.set("dst", place_j(place))
							.set("variant", J::Num(variant_index.index() as i64)),
					);
				}
				StatementKind::StorageLive(_)
				| StatementKind::StorageDead(_)
				| StatementKind::Nop
				| StatementKind::FakeRead(..)
				| StatementKind::PlaceMention(..)
				| StatementKind::AscribeUserType(..)
				| StatementKind::Coverage(..)
				| StatementKind::ConstEvalCounter
				| StatementKind::BackwardIncompatibleDropHint { .. } => {}
				other => {
					stmts.push(J::obj().set("k", J::s("other")).set("s", J::s(format!("{:?}", other))));
				}
			}
		}
		b.put("stmts", J::Arr(stmts));
		let term = data.terminator();
		let mut t = J::obj();
		t.put("line", line_of(tcx, term.source_info.span));
		t.put("exp", term.source_info.span.from_expansion().into());
		match &term.kind {
			TerminatorKind::Goto { target } => {
				t.put("k", J::s("goto"));
				t.put("target", bb_j(*target));
			}
			TerminatorKind::SwitchInt { discr, targets } => {
				t.put("k", J::s("switch"));
				t.put("discr", operand_j(tcx, body, discr));
				let mut arms = Vec::new();
				for (v, bb) in targets.iter() {
					arms.push(J::Arr(vec![J::s(format!("{}", v)), bb_j(bb)]));
				}
				t.put("arms", J::Arr(arms));
				t.put("otherwise", bb_j(targets.otherwise()));
				t.put("discr_ty", ty_j(tcx, discr.ty(&body.local_decls, tcx)));
			}
			TerminatorKind::Return => t.put("k", J::s("return")),
			TerminatorKind::Unreachable => t.put("k", J::s("unreachable")),
			TerminatorKind::UnwindResume => t.put("k", J::s("resume")),
			TerminatorKind::UnwindTerminate(_) => t.put("k", J::s("terminate")),
			TerminatorKind::Drop { place, target, unwind, .. } => {
				t.put("k", J::s("drop"));
				t.put("place", place_j(place));
				t.put("ty", ty_j(tcx, place.ty(&body.local_decls, tcx).ty));
				t.put("target", bb_j(*target));
				t.put("unwind", unwind_j(unwind));
			}
			TerminatorKind::Call { func, args, destination, target, unwind, .. } => {
				t.put("k", J::s("call"));
				t.put("callee", callee_j(tcx, owner, body, func));
				t.put(
					"args",
					J::Arr(args.iter().map(|a| operand_j(tcx, body, &a.node)).collect()),
				);
				t.put("dest", place_j(destination));
				t.put("target", target.map(bb_j).unwrap_or(J::Null));
				t.put("unwind", unwind_j(unwind));
			}
			TerminatorKind::TailCall { func, args, .. } => {
				t.put("k", J::s("tailcall"));
				t.put("callee", callee_j(tcx, owner, body, func));
				t.put(
					"args",
					J::Arr(args.iter().map(|a| operand_j(tcx, body, &a.node)).collect()),
				);
			}
			TerminatorKind::Assert { cond, expected, msg, target, unwind } => {
				t.put("k", J::s("assert"));
				t.put("cond", operand_j(tcx, body, cond));
				t.put("expected", (*expected).into());
				t.put("msg", J::s(assert_kind_name(msg)));
				t.put("target", bb_j(*target));
				t.put("unwind", unwind_j(unwind));
			}
			other => {
				t.put("k", J::s("other"));
				t.put("s", J::s(format!("{:?}", other)));
			}
		}
		b.put("term", t);
		blocks.push(b);
	}
	o.put("blocks", J::Arr(blocks));
	o
}

fn assert_kind_name<'tcx>(m: &mir::AssertMessage<'tcx>) -> String {
	let s = format!("{:?}", m);
	let end = s.find(|c: char| c == '(' || c == '{' || c == ' ').unwrap_or(s.len());
	s[..end].to_string()
}

fn line_of<'tcx>(tcx: TyCtxt<'tcx>, sp: Span) -> J {
	// line of the outermost (user-written) location of this span
	let sp = sp.source_callsite();
	let lo = tcx.sess.source_map().lookup_char_pos(sp.lo());
	J::Num(lo.line as i64)
}

/// Things only the trait solver knows.
fn probes<'tcx>(tcx: TyCtxt<'tcx>) -> J {
	use rustc_infer::infer::TyCtxtInferExt;
	use rustc_trait_selection::infer::InferCtxtExt;
	let mut out = J::obj();
	let mut defaults = Vec::new();
	let default_trait = tcx.get_diagnostic_item(rustc_span::sym::Default);
	if let Some(default_trait) = default_trait {
		for ldid in tcx.iter_local_def_id() {
			let did = ldid.to_def_id();
			if !matches!(tcx.def_kind(did), DefKind::Impl { of_trait: true }) {
				continue;
			}
			for it in tcx.associated_items(did).in_definition_order() {
				if !matches!(it.kind, ty::AssocKind::Type { .. }) {
					continue;
				}
				let t = tcx.type_of(it.def_id).instantiate_identity().skip_norm_wip();
				let tenv = ty::TypingEnv::post_analysis(tcx, it.def_id);
				let (infcx, penv) = tcx.infer_ctxt().build_with_typing_env(tenv);
				let res = infcx.type_implements_trait(default_trait, [t], penv);
				defaults.push(
					J::obj()
						.set("impl", J::s(format!("{:?}", did)))
						.set("item", J::s(tcx.def_path_str(it.def_id)))
						.set("name", J::s(it.name().as_str()))
						.set("ty", ty_j(tcx, t))
						.set("default", res.must_apply_modulo_regions().into()),
				);
			}
		}
	}
	out.put("assoc_default", J::Arr(defaults));
	out
}
