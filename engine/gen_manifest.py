#!/usr/bin/env python3
"""Regenerate /verif/MANIFEST.json from engine/rules/propdefs.py (claimed properties) and properties.jsonl."""
import json, os, sys
HERE = os.path.dirname(os.path.abspath(__file__))
sys.path.insert(0, os.path.join(HERE, "rules"))
import propdefs

V = os.path.dirname(HERE)
props = [json.loads(l) for l in open(os.path.join(V, "properties.jsonl"))]
NA_REASONS = {}
checks = []
for p in props:
    pid = p["id"]
    if pid not in propdefs.P:
        continue
    d = propdefs.P[pid]
    checks.append({
        "property_id": pid,
        "quick_cmd": "./hlv check %s --tier quick" % pid,
        "thorough_cmd": "./hlv check %s --tier thorough" % pid,
        "evidence_file": "/verif/evidence/%s.json" % pid,
        "replay_cmd_template": "./hlv explain {path}",
        "engine": "hlv",
        "level_claimed": {"category": "other",
                          "text": "static analysis: " + d["explanation"] + " These are necessary structural conditions of the "
                                  "property, decided for every function/impl/path of the current tree; the behaviour itself "
                                  "(" + d["not_decided"] + ") is not decided.",
                          "design_ref": "DESIGN.md section 4, " + pid},
        "level_note": "trusted: rustc type/borrow checker and MIR construction; lock_api RawMutex/RawRwLock contracts; the std "
                      "function models and no-unwind table in engine/rules/interp.py; reference tables in rules_sig.py. "
                      "Known findings are listed in KNOWN_FINDINGS.txt by exact key.",
        "technique": d.get("technique") or "static analysis: custom rules over rustc's resolved MIR/impl tables (rustc_private fact "
                                           "extractor + path-sensitive typestate interpreter, call-graph and signature rules)"
                                           + (", compile-fail witnesses with twins" if any(getattr(r, "_witness", False) for r in d["rules"]) else ""),
    })
na = [{"property_id": p["id"], "reason": NA_REASONS.get(p["id"], "check not built yet (framework under construction; see DESIGN.md section 8)")}
      for p in props if p["id"] not in propdefs.P]
m = {
    "version": 1,
    "setup_cmd": "cd /verif/engine/hlfacts && CARGO_NET_OFFLINE=true cargo +nightly build --release --offline",
    "hooks": {"guard": "happylock_verif", "enable": "none needed: the analysis reads the unmodified build (no hooks were added to /repo)",
              "baseline_off_cmd": "cd /repo && cargo test --workspace --no-fail-fast --offline",
              "source_commits": [], "add_only": True},
    "engines": [
        {"name": "hlfacts", "path": "engine/hlfacts", "serves_properties": [c["property_id"] for c in checks],
         "kind_free_text": "rustc_private driver (nightly) dumping ADTs, impl tables, signatures, predicates, effective visibility and "
                           "MIR with resolved callees of /repo's current tree as JSON"},
        {"name": "hlrules", "path": "engine/rules", "serves_properties": [c["property_id"] for c in checks],
         "kind_free_text": "Python rule engine: path-sensitive typestate/effect interpreter over MIR (ESP-style), call-graph, "
                           "signature/impl-table rules, held-set abstract interpreter for the multi-lock algorithms"},
        {"name": "witness", "path": "engine/witness", "serves_properties": ["C07", "C14", "C15"],
         "kind_free_text": "compile-fail witness programs with auto-generated compiling twins, checked with cargo check (never run)"},
    ],
    "checks": checks,
    "not_applicable": na,
    "notes": "Entry point ./hlv check <ID> --tier quick|thorough. Known findings: KNOWN_FINDINGS.txt. Design: DESIGN.md.",
}
json.dump(m, open(os.path.join(V, "MANIFEST.json"), "w"), indent=1)
print("claimed:", [c["property_id"] for c in checks])
