#!/usr/bin/env python3
"""Systematic search for blind spots: generate small syntactic mutants of /repo's src, keep those that still compile
and still pass the pinned suite (unit + integration tests), and run every quick check on each survivor.  Survivors that
no check reports are either equivalent mutants or blind spots of the rules; they are triaged by hand (the result of
the triage is recorded in DESIGN.md and, where a rule was missing, in mutations.py).

This tool is a *development aid for the checker*: it runs the test suite only to decide which mutants are worth
looking at; no property check depends on it.

  mutgen.py gen                      -> /var/tmp/mutgen/mutants.json
  mutgen.py run [--jobs N] [--only-file substr] [--limit N]
                                     -> /var/tmp/mutgen/results.jsonl (appends; finished ids are skipped)
  mutgen.py report                   -> summary, survivors not reported by any check
"""
import json
import os
import re
import shutil
import subprocess
import sys
import threading
from concurrent.futures import ThreadPoolExecutor

HERE = os.path.dirname(os.path.abspath(__file__))
VERIF = os.path.dirname(os.path.dirname(HERE))
WORK = "/var/tmp/mutgen"
REPO = "/repo"
PROPS = ["C%02d" % i for i in range(1, 18)]

SWAPS = [("raw_write", "raw_read"), ("raw_try_write", "raw_try_read"), ("raw_unlock_write", "raw_unlock_read"),
         ("lock_exclusive", "lock_shared"), ("try_lock_exclusive", "try_lock_shared"), ("unlock_exclusive", "unlock_shared"),
         ("ordered_write", "ordered_read"), ("ordered_try_write", "ordered_try_read"),
         ("attempt_to_recover_writes_from_panic", "attempt_to_recover_reads_from_panic"),
         ("data_mut", "data_ref"), ("guard", "read_guard"), ("scoped_write", "scoped_read"), ("scoped_try_write", "scoped_try_read"),
         ("get_locks", "get_locks_unsorted"), ("poison", "clear_poison"), ("is_poisoned", "is_locked"),
         ("Acquire", "Relaxed"), ("Release", "Relaxed"), ("SeqCst", "Relaxed")]


def src_files():
    out = []
    for root, dirs, files in os.walk(os.path.join(REPO, "src")):
        for f in sorted(files):
            if f.endswith(".rs"):
                out.append(os.path.relpath(os.path.join(root, f), REPO))
    return sorted(out)


def balanced(s):
    return s.count("(") == s.count(")") and s.count("{") == s.count("}") and s.count("[") == s.count("]")


def gen():
    muts = []
    for rel in src_files():
        lines = open(os.path.join(REPO, rel)).read().split("\n")
        end = len(lines)
        for i, ln in enumerate(lines):
            if ln.strip().startswith("#[cfg(test)]"):
                end = i
                break
        in_doc_macro = False
        for i in range(end):
            ln = lines[i]
            st = ln.strip()
            if not st or st.startswith("//") or st.startswith("#[") or st.startswith("#!") or st.startswith("use ") or st.startswith("pub use "):
                continue
            if st.startswith("mod ") or st.startswith("pub mod "):
                continue
            code = ln.split("//")[0] if '"' not in ln else ln

            def add(op, new, note=""):
                if new != ln:
                    muts.append({"file": rel, "line": i + 1, "op": op, "old": ln, "new": new, "note": note})
            # DEL: single-line statement
            if st.endswith(";") and balanced(st) and not st.startswith(("let ", "type ", "const ", "static ", "pub ", "fn ", "unsafe fn", "return", "break", "continue")):
                add("DEL", re.sub(r"\S.*$", "", ln), "statement deleted")
            # MDEL: statement spanning several lines (balanced again at a line ending in `;`)
            if not balanced(st) and not st.startswith(("let ", "pub ", "fn ", "unsafe fn", "impl", "return", "match ", "if ", "for ", "while ", "loop", "unsafe impl", "struct", "enum", "trait", "type ", "macro_rules", "where", "#")) \
                    and re.match(r"^[a-zA-Z_:.&*()<>]+\($", st):
                acc = st
                for j in range(i + 1, min(end, i + 25)):
                    acc += lines[j].strip()
                    if balanced(acc):
                        if lines[j].strip().endswith((";", ")")):
                            muts.append({"file": rel, "line": i + 1, "op": "MDEL", "old": ln, "new": re.sub(r"\S.*$", "", ln), "note": "multi-line statement deleted",
                                         "upto": j + 1})
                        break
            # NEG: if cond {
            m = re.match(r"^(\s*(?:\} else )?if )(?!let )(.+?)( \{\s*)$", ln)
            if m:
                add("NEG", "%s!(%s)%s" % (m.group(1), m.group(2), m.group(3)), "condition negated")
            m = re.match(r"^(\s*(?:debug_)?assert!\()(.+)(\);\s*)$", ln)
            if m and "," not in m.group(2):
                pass
            # BOOL
            for mm in re.finditer(r"\b(true|false)\b", code):
                new = ln[:mm.start()] + ("false" if mm.group(1) == "true" else "true") + ln[mm.end():]
                add("BOOL", new, "%s flipped" % mm.group(1))
            # CMP
            for pat, rep in ((r"==", "!="), (r"!=", "=="), (r" < ", " <= "), (r" > ", " >= "), (r" <= ", " < "), (r" >= ", " > ")):
                for mm in re.finditer(pat, code):
                    if pat in ("==", "!=") and (code[mm.end():mm.end() + 1] == "=" or code[max(0, mm.start() - 1):mm.start()] in ("=", "!", "<", ">")):
                        continue
                    add("CMP", ln[:mm.start()] + rep + ln[mm.end():], "%s -> %s" % (pat.strip(), rep.strip()))
            # LOGIC
            for pat, rep in ((r"&&", "||"), (r"\|\|", "&&")):
                for mm in re.finditer(pat, code):
                    if pat == r"\|\|" and re.search(r"\|\|\s*(\{|[a-zA-Z_(!&*])", code[mm.start():]) and re.search(r"[(,=]\s*(move\s*)?$", code[:mm.start()]):
                        continue   # a closure `|| expr`
                    add("LOGIC", ln[:mm.start()] + rep + ln[mm.end():], "%s -> %s" % (mm.group(0), rep))
            # NOT removed
            for mm in re.finditer(r"!(?=[a-zA-Z_(])", code):
                if code[max(0, mm.start() - 1):mm.start()].isalnum() or code[max(0, mm.start() - 1):mm.start()] == "_":
                    continue   # macro call
                add("NOT", ln[:mm.start()] + ln[mm.end():], "negation removed")
            # NUM
            for mm in re.finditer(r"([+-]) 1\b", code):
                add("NUM", ln[:mm.start()] + mm.group(1) + " 0" + ln[mm.end():], "off by one")
                add("NUM", ln[:mm.start()] + mm.group(1) + " 2" + ln[mm.end():], "off by one")
            for mm in re.finditer(r"\.\.(?=[a-zA-Z_(])", code):
                if code[mm.end():mm.end() + 1] != "=" and code[max(0, mm.start() - 1):mm.start()] != ".":
                    add("NUM", ln[:mm.end()] + "=" + ln[mm.end():], "exclusive range made inclusive")
            for mm in re.finditer(r"\b0\.\.", code):
                add("NUM", ln[:mm.start()] + "1.." + ln[mm.end():], "range starts at 1")
            for mm in re.finditer(r"\[0\]", code):
                add("NUM", ln[:mm.start()] + "[1]" + ln[mm.end():], "index 0 -> 1")
            # SWAP sibling names (uses only, not definitions)
            if not re.search(r"\bfn\s", code):
                for a, b in SWAPS:
                    for x, y in ((a, b), (b, a)):
                        for mm in re.finditer(r"(?<![A-Za-z0-9_])%s(?=\s*\()" % re.escape(x), code) if x[0].islower() else re.finditer(r"\b%s\b" % x, code):
                            add("SWAP", ln[:mm.start()] + y + ln[mm.end():], "%s -> %s" % (x, y))
            # THEN laziness
            mm = re.search(r"\.then\(\|\| ", code)
            if mm and balanced(st):
                pass
    # dedupe
    seen = set()
    out = []
    for m in muts:
        k = (m["file"], m["line"], m["new"])
        if k in seen:
            continue
        seen.add(k)
        m["id"] = "%s:%d:%s:%d" % (m["file"].replace("src/", ""), m["line"], m["op"], len(out))
        out.append(m)
    os.makedirs(WORK, exist_ok=True)
    json.dump(out, open(os.path.join(WORK, "mutants.json"), "w"), indent=0)
    from collections import Counter
    print(len(out), "mutants", dict(Counter(m["op"] for m in out)))


_tl = threading.local()
_wlock = threading.Lock()
_wcount = [0]


def worker_dir():
    if not hasattr(_tl, "d"):
        with _wlock:
            k = _wcount[0]
            _wcount[0] += 1
        d = os.path.join(WORK, "w%d" % k)
        shutil.rmtree(d, ignore_errors=True)
        os.makedirs(d)
        subprocess.check_call(["rsync", "-a", "--exclude", "target", "--exclude", ".git", REPO + "/", d + "/repo/"])
        env = dict(os.environ, CARGO_TARGET_DIR=d + "/target", RUSTFLAGS="-Awarnings", CARGO_NET_OFFLINE="true")
        subprocess.run(["cargo", "test", "--offline", "-q", "--lib", "--tests", "--no-run"], cwd=d + "/repo", env=env,
                       stdout=subprocess.DEVNULL, stderr=subprocess.DEVNULL)
        _tl.d = d
    return _tl.d


def run_one(m):
    d = worker_dir()
    repo = d + "/repo"
    env = dict(os.environ, CARGO_TARGET_DIR=d + "/target", RUSTFLAGS="-Awarnings", CARGO_NET_OFFLINE="true")
    p = os.path.join(repo, m["file"])
    orig = open(p).read()
    lines = orig.split("\n")
    res = {"id": m["id"], "file": m["file"], "line": m["line"], "op": m["op"], "note": m["note"], "old": m["old"].strip(), "new": m["new"].strip()}
    try:
        if lines[m["line"] - 1] != m["old"]:
            res["status"] = "stale"
            return res
        lines[m["line"] - 1] = m["new"]
        if m.get("upto"):
            for j in range(m["line"], m["upto"]):
                lines[j] = ""
        open(p, "w").write("\n".join(lines))
        r = None if m.get("recheck") else subprocess.run(["cargo", "check", "--offline", "-q", "--lib"], cwd=repo, env=env, stdout=subprocess.PIPE, stderr=subprocess.PIPE, text=True)
        if r is not None and r.returncode != 0:
            res["status"] = "nocompile"
            return res
        try:
            if m.get("recheck"):
                raise KeyError
            r = subprocess.run(["cargo", "test", "--offline", "-q", "--lib", "--tests", "--no-fail-fast", "--", "--test-threads", "4"], cwd=repo, env=env,
                               stdout=subprocess.PIPE, stderr=subprocess.PIPE, text=True, timeout=240)
            if r.returncode != 0:
                res["status"] = "killed-by-tests"
                return res
        except KeyError:
            pass
        except subprocess.TimeoutExpired:
            subprocess.run(["pkill", "-f", d + "/target"], stdout=subprocess.DEVNULL, stderr=subprocess.DEVNULL)
            res["status"] = "killed-by-tests"
            res["timeout"] = True
            return res
        # survivor: run all quick checks
        fired = []
        crashed = []
        out = d + "/out"
        shutil.rmtree(out, ignore_errors=True)
        henv = dict(os.environ, HLV_REPO=repo, HLV_OUT=out)
        for pid in PROPS:
            r = subprocess.run([os.path.join(VERIF, "hlv"), "check", pid], env=henv, stdout=subprocess.PIPE, stderr=subprocess.PIPE, text=True)
            if r.returncode not in (0, 1):
                crashed.append(pid)
            for ln in r.stdout.split("\n"):
                if ln.startswith("VIOLATION"):
                    path = ln.split("replay=")[1].strip()
                    try:
                        j = json.load(open(path))
                        fired.append("%s:%s" % (pid, j.get("rule")))
                    except Exception:
                        fired.append("%s:?" % pid)
        res["status"] = "survivor"
        res["fired"] = sorted(set(fired))
        res["crashed"] = crashed
        return res
    finally:
        open(p, "w").write(orig)


def run(args):
    jobs = int(args[args.index("--jobs") + 1]) if "--jobs" in args else 6
    muts = json.load(open(os.path.join(WORK, "mutants.json")))
    if "--only-file" in args:
        sub = args[args.index("--only-file") + 1]
        muts = [m for m in muts if sub in m["file"]]
    done = set()
    rp = os.path.join(WORK, "results.jsonl")
    if "--recheck" in args:
        # survivors of an earlier run, checks only (no cargo test), results to recheck.jsonl
        sv = set(json.loads(l)["id"] for l in open(rp) if json.loads(l)["status"] == "survivor")
        muts = [dict(m, recheck=True) for m in muts if m["id"] in sv]
        rp = os.path.join(WORK, "recheck.jsonl")
    if os.path.exists(rp):
        for ln in open(rp):
            try:
                done.add(json.loads(ln)["id"])
            except Exception:
                pass
    muts = [m for m in muts if m["id"] not in done]
    if "--limit" in args:
        muts = muts[:int(args[args.index("--limit") + 1])]
    print("running", len(muts), "mutants with", jobs, "workers", flush=True)
    n = 0
    with ThreadPoolExecutor(max_workers=jobs) as ex, open(rp, "a") as fo:
        for res in ex.map(run_one, muts):
            fo.write(json.dumps(res) + "\n")
            fo.flush()
            n += 1
            if res["status"] == "survivor":
                print("%4d %-48s %-10s %s | %s" % (n, res["id"], res["status"], " ".join(res["fired"]) or "-- NOT REPORTED --", res["new"][:90]), flush=True)
    for k in range(_wcount[0]):
        shutil.rmtree(os.path.join(WORK, "w%d" % k), ignore_errors=True)


def report(name="results.jsonl"):
    from collections import Counter
    rs = [json.loads(l) for l in open(os.path.join(WORK, name))]
    print(Counter(r["status"] for r in rs))
    sv = [r for r in rs if r["status"] == "survivor"]
    print("survivors:", len(sv), "reported by a check:", sum(1 for r in sv if r["fired"]), "crashes:", sum(1 for r in sv if r["crashed"]))
    for r in sv:
        if not r["fired"]:
            print("  %-46s %s\n      - %s\n      + %s" % (r["id"], r["note"], r["old"][:140], r["new"][:140]))


if __name__ == "__main__":
    a = sys.argv[1:]
    if a and a[0] == "gen":
        gen()
    elif a and a[0] == "run":
        run(a[1:])
    elif a and a[0] == "report-recheck":
        report("recheck.jsonl")
    else:
        report()
