#!/usr/bin/env python3
"""verify_seed.py <agent-dir> <seed-id> <property>: confirm a seeded change independently in a fresh scratch copy of /repo:
 (1) patch applies and the crate compiles, (2) the existing suite passes with it, (3) the demo fails with it,
 (4) the demo passes without it.  On success store it under /verif/seeded/<seed-id>/."""
import json, os, shutil, subprocess, sys, tempfile, time
src, sid, prop = sys.argv[1], sys.argv[2], sys.argv[3]
d = tempfile.mkdtemp(prefix="hlseed.", dir="/var/tmp")
repo = d + "/repo"
env = dict(os.environ, CARGO_TARGET_DIR=d + "/target", CARGO_NET_OFFLINE="true", RUSTFLAGS="-Awarnings")
def run(cmd, **kw):
    return subprocess.run(cmd, cwd=repo, env=env, stdout=subprocess.PIPE, stderr=subprocess.STDOUT, text=True, **kw)
try:
    subprocess.check_call(["rsync", "-a", "--exclude", "target", "--exclude", ".git", "/repo/", repo + "/"])
    r = run(["patch", "-p1", "-s", "-i", os.path.join(src, "patch.diff")])
    assert r.returncode == 0, "patch does not apply: " + r.stdout
    touched = subprocess.run(["grep", "-E", r"^\+\+\+ ", os.path.join(src, "patch.diff")], stdout=subprocess.PIPE, text=True).stdout
    assert all("/src/" in l for l in touched.strip().split("\n")), "patch touches non-src files: " + touched
    t = run(["cargo", "test", "--workspace", "--no-fail-fast", "--offline"], timeout=900)
    res = [l for l in t.stdout.split("\n") if l.startswith("test result")]
    passed = sum(int(l.split()[3]) for l in res)
    failed = sum(int(l.split()[5]) for l in res)
    suite_ok = t.returncode == 0 and failed == 0 and passed >= 192
    print("suite with change: passed=%d failed=%d rc=%d" % (passed, failed, t.returncode))
    shutil.copy(os.path.join(src, "tests/seed_demo.rs"), repo + "/tests/seed_demo.rs")
    try:
        dm = run(["cargo", "test", "--offline", "--test", "seed_demo"], timeout=600)
        demo_with = dm.returncode
    except subprocess.TimeoutExpired:
        demo_with = "timeout"
    print("demo with change: rc=%s" % demo_with)
    r = run(["patch", "-p1", "-R", "-s", "-i", os.path.join(src, "patch.diff")])
    assert r.returncode == 0
    dm2 = run(["cargo", "test", "--offline", "--test", "seed_demo"], timeout=600)
    print("demo without change: rc=%d" % dm2.returncode)
    ok = suite_ok and demo_with not in (0,) and dm2.returncode == 0
    print("VERIFIED" if ok else "REJECTED")
    if ok:
        out = "/verif/seeded/" + sid
        os.makedirs(out, exist_ok=True)
        shutil.copy(os.path.join(src, "patch.diff"), out + "/patch.diff")
        shutil.copy(os.path.join(src, "tests/seed_demo.rs"), out + "/seed_demo.rs")
        meta_txt = open(os.path.join(src, "meta.txt")).read() if os.path.exists(os.path.join(src, "meta.txt")) else ""
        json.dump({"id": sid, "property": prop, "source": "fresh sub-agent given only the property text and a scratch worktree",
                   "needs_to_manifest": "see agent_report", "agent_report": meta_txt,
                   "verified": {"date": time.strftime("%Y-%m-%d"), "base_commit": subprocess.run(["git", "-C", "/repo", "rev-parse", "--short", "HEAD"], stdout=subprocess.PIPE, text=True).stdout.strip(),
                                "existing_suite_with_change": "passed=%d failed=%d" % (passed, failed),
                                "demo_with_change": "fails (rc=%s)" % demo_with, "demo_without_change": "passes",
                                "commands": ["patch -p1 -i patch.diff (scratch copy of /repo)", "cargo test --workspace --no-fail-fast --offline",
                                             "cargo test --offline --test seed_demo", "patch -R ; cargo test --offline --test seed_demo"]}},
                  open(out + "/meta.json", "w"), indent=1)
    sys.exit(0 if ok else 1)
finally:
    shutil.rmtree(d, ignore_errors=True)
