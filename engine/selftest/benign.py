"""Behaviour-preserving refactors: every check must stay silent on each (negative controls for the whole rule set)."""
M = []


def mut(name, file, old, new, note=""):
    M.append({"name": name, "file": file, "old": old, "new": new, "expect": [], "note": note})


mut("b_key_if_else", "src/key.rs", "\t\t\tkey.try_lock().then(|| Self {\n\t\t\t\tphantom: PhantomData,\n\t\t\t})",
    "\t\t\tif key.try_lock() {\n\t\t\t\tSome(Self {\n\t\t\t\t\tphantom: PhantomData,\n\t\t\t\t})\n\t\t\t} else {\n\t\t\t\tNone\n\t\t\t}")
mut("b_mutex_lock_local", "src/mutex/mutex.rs", "\t\t\t// safety: we just locked the mutex\n\t\t\tMutexGuard::new(self, key)\n\t\t}",
    "\t\t\t// safety: we just locked the mutex\n\t\t\tlet guard = MutexGuard::new(self, key);\n\t\t\tguard\n\t\t}")
mut("b_utils_scoped_write_drop_key_last", "src/collection/utils.rs",
    "\t\t// this ensures the key is held long enough\n\t\tdrop(key);\n\n\t\t// safety: we've locked already, and aren't using the data again\n\t\tcollection.raw_unlock_write();\n\n\t\tr\n",
    "\t\t// safety: we've locked already, and aren't using the data again\n\t\tcollection.raw_unlock_write();\n\n\t\t// this ensures the key is held long enough\n\t\tdrop(key);\n\n\t\tr\n")
mut("b_ordered_write_iter", "src/collection/utils.rs", "\t\t\tfor lock in locks {\n\t\t\t\tlock.raw_write();", "\t\t\tfor lock in locks.iter() {\n\t\t\t\tlock.raw_write();")
mut("b_ordered_read_for_each", "src/collection/utils.rs",
    "\t\t\tfor lock in locks {\n\t\t\t\tlock.raw_read();\n\t\t\t\tlocked.set(locked.get() + 1);\n\t\t\t}",
    "\t\t\tlocks.iter().for_each(|lock| {\n\t\t\t\tlock.raw_read();\n\t\t\t\tlocked.set(locked.get() + 1);\n\t\t\t});")
mut("b_rollback_take", "src/collection/utils.rs",
    "\t\t\t\t\tfor lock in &locks[0..i] {\n\t\t\t\t\t\t// safety: this lock was already acquired\n\t\t\t\t\t\tlock.raw_unlock_write();",
    "\t\t\t\t\tfor lock in locks.iter().take(i) {\n\t\t\t\t\t\t// safety: this lock was already acquired\n\t\t\t\t\t\tlock.raw_unlock_write();")
mut("b_boxed_unlock_for_each", "src/collection/boxed.rs",
    "\tunsafe fn raw_unlock_write(&self) {\n\t\tfor lock in self.locks() {\n\t\t\tlock.raw_unlock_write();\n\t\t}\n\t}",
    "\tunsafe fn raw_unlock_write(&self) {\n\t\tself.locks().iter().for_each(|lock| lock.raw_unlock_write());\n\t}")
mut("b_handle_unwind_match", "src/handle_unwind.rs",
    "\tcatch_unwind(try_fn).unwrap_or_else(|e| {\n\t\tcatch();\n\t\tresume_unwind(e)\n\t})",
    "\tmatch catch_unwind(try_fn) {\n\t\tOk(r) => r,\n\t\tErr(e) => {\n\t\t\tcatch();\n\t\t\tresume_unwind(e)\n\t\t}\n\t}")
mut("b_poisonref_early_return", "src/poisonable/guard.rs",
    "\t\tif std::thread::panicking() {\n\t\t\tself.flag.poison();\n\t\t}",
    "\t\tif !std::thread::panicking() {\n\t\t\treturn;\n\t\t}\n\t\tself.flag.poison();")
mut("b_sort_unstable", "src/collection/utils.rs", "locks.sort_by_key(|lock| &raw const **lock);", "locks.sort_unstable_by_key(|lock| &raw const **lock);")
mut("b_mutex_fields_reordered", "src/mutex.rs", "pub struct Mutex<T: ?Sized, R> {\n\traw: R,\n\tpoison: PoisonFlag,\n\tdata: UnsafeCell<T>,\n}", "pub struct Mutex<T: ?Sized, R> {\n\tpoison: PoisonFlag,\n\traw: R,\n\tdata: UnsafeCell<T>,\n}")
mut("b_try_lock_match", "src/mutex/mutex.rs",
    "\t\t\tif self.raw_try_write() {\n\t\t\t\t// safety: we just locked the mutex\n\t\t\t\tOk(MutexGuard::new(self, key))\n\t\t\t} else {\n\t\t\t\tErr(key)\n\t\t\t}",
    "\t\t\tmatch self.raw_try_write() {\n\t\t\t\ttrue => Ok(MutexGuard::new(self, key)),\n\t\t\t\tfalse => Err(key),\n\t\t\t}")
mut("b_new_harmless_method", "src/mutex/mutex.rs", "\t#[must_use]\n\tpub fn unlock(guard: MutexGuard<'_, T, R>) -> ThreadKey {",
    "\t/// Whether a raw lock operation of this mutex has panicked before.\n\tpub fn is_dead(&self) -> bool {\n\t\tself.poison.is_poisoned()\n\t}\n\n\t#[must_use]\n\tpub fn unlock(guard: MutexGuard<'_, T, R>) -> ThreadKey {")
mut("b_retry_try_new_if", "src/collection/retry.rs",
    "\t\t(!contains_duplicates(&data)).then_some(unsafe { Self::new_unchecked(data) })",
    "\t\tif contains_duplicates(&data) {\n\t\t\treturn None;\n\t\t}\n\t\tSome(unsafe { Self::new_unchecked(data) })")
mut("b_unlock_let", "src/collection/owned.rs",
    "\tpub fn unlock(guard: LockGuard<L::Guard<'_>>) -> ThreadKey {\n\t\tdrop(guard.guard);\n\t\tguard.key\n\t}",
    "\tpub fn unlock(guard: LockGuard<L::Guard<'_>>) -> ThreadKey {\n\t\tlet LockGuard { guard: holds, key } = guard;\n\t\tdrop(holds);\n\t\tkey\n\t}")
mut("b_contains_dups_all", "src/collection/retry.rs",
    "\tfor lock in locks {\n\t\tif !locks_set.insert(lock) {\n\t\t\treturn true;\n\t\t}\n\t}\n\n\tfalse",
    "\tlet mut locks = locks;\n\t!locks.all(|lock| locks_set.insert(lock))")
mut("b_raw_write_assert_to_if", "src/mutex/mutex.rs",
    "\t\tassert!(!self.poison.is_poisoned(), \"The mutex has been killed\");",
    "\t\tif self.poison.is_poisoned() {\n\t\t\tpanic!(\"The mutex has been killed\");\n\t\t}")
# (b_retry_unlock_reverse was removed: releasing in reverse order changes WHICH members stay locked when one release panics -
#  a different failing history of the known defect G9, which the exact Q4 variants rightly report as a different finding)
mut("b_ordered_write_single_fast_path", "src/collection/utils.rs",
    "pub unsafe fn ordered_write(locks: &[&dyn RawLock]) {\n\t// these will be unlocked in case of a panic\n\tlet locked = Cell::new(0);\n",
    "pub unsafe fn ordered_write(locks: &[&dyn RawLock]) {\n\tif locks.len() == 1 {\n\t\treturn locks[0].raw_write();\n\t}\n\t// these will be unlocked in case of a panic\n\tlet locked = Cell::new(0);\n")
mut("b_is_locked_query", "src/mutex/mutex.rs", "\t#[must_use]\n\tpub fn unlock(guard: MutexGuard<'_, T, R>) -> ThreadKey {",
    "\t/// Whether the mutex is currently locked by anyone (a racy hint).\n\tpub fn is_locked_hint(&self) -> bool {\n\t\tself.raw.is_locked()\n\t}\n\n\t#[must_use]\n\tpub fn unlock(guard: MutexGuard<'_, T, R>) -> ThreadKey {")
mut("b_private_lock_helper", "src/mutex/mutex.rs",
    "\tpub fn lock(&self, key: ThreadKey) -> MutexGuard<'_, T, R> {\n\t\tunsafe {\n\t\t\t// safety: we have the thread key\n\t\t\tself.raw_write();\n",
    "\tfn acquire(&self) {\n\t\t// safety: only called by functions that own the thread key\n\t\tunsafe { self.raw_write() }\n\t}\n\n\tpub fn lock(&self, key: ThreadKey) -> MutexGuard<'_, T, R> {\n\t\tunsafe {\n\t\t\t// safety: we have the thread key\n\t\t\tself.acquire();\n")
mut("b_ordered_try_write_iterator_style", "src/collection/utils.rs",
    "\t\t\tfor (i, lock) in locks.iter().enumerate() {\n\t\t\t\t// safety: we have the thread key\n\t\t\t\tif lock.raw_try_write() {\n\t\t\t\t\tlocked.set(locked.get() + 1);\n\t\t\t\t} else {\n\t\t\t\t\tfor lock in &locks[0..i] {\n\t\t\t\t\t\t// safety: this lock was already acquired\n\t\t\t\t\t\tlock.raw_unlock_write();\n\t\t\t\t\t}\n\t\t\t\t\treturn false;\n\t\t\t\t}\n\t\t\t}\n\n\t\t\ttrue",
    "\t\t\tlet acquired = locks\n\t\t\t\t.iter()\n\t\t\t\t.take_while(|lock| lock.raw_try_write())\n\t\t\t\t.inspect(|_| locked.set(locked.get() + 1))\n\t\t\t\t.count();\n\t\t\tif acquired < locks.len() {\n\t\t\t\tfor lock in &locks[0..acquired] {\n\t\t\t\t\tlock.raw_unlock_write();\n\t\t\t\t}\n\t\t\t\treturn false;\n\t\t\t}\n\n\t\t\ttrue")

# ---- renames of crate-internal helpers (anchors are discovered structurally) --------------------------------------------------
M.append({"name": "b_rename_internal_helpers", "expect": [], "note": "sed-style renames across src/",
          "rename": [("handle_unwind", "with_recovery"), ("get_locks_unsorted", "listed_locks"), ("get_locks", "sorted_locks"),
                     ("ordered_contains_duplicates", "has_adjacent_duplicates"), ("KeyCell", "KeyFlag"),
                     ("clear_poison", "clear_poison"), ("ordered_write", "blocking_write_all")]})

# ---- behaviour-preserving refactors written by sub-agents (round B1); each was reviewed before being added -------------------
import glob as _glob
import os as _os
for _p in sorted(_glob.glob(_os.path.join(_os.path.dirname(_os.path.abspath(__file__)), "benign_patches", "*.diff"))):
    M.append({"name": "bp_" + _os.path.basename(_p)[:-5], "expect": [], "patch": _p, "note": "see benign_patches/*_notes.txt"})
