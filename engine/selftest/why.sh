#!/bin/bash
# why.sh <patch-file-or-seed> <PROP>... : apply to a scratch copy, run the checks, print each new violation in full
p="$1"; shift
R=$(/verif/engine/selftest/scratch.sh "$p") || exit 2
O=$(dirname "$R")/out
for pr in "$@"; do
  HLV_REPO=$R HLV_OUT=$O /verif/hlv check $pr | grep -v "^rule \|^KNOWN" | grep "VIOLATION" | while read -r l; do
    f=$(echo "$l" | sed 's/.*replay=//'); python3 - "$f" <<'PY'
import json,sys
j=json.load(open(sys.argv[1]))
print("  [%s] %s | %s | %s\n      %s:%s %s" % (j.get("property"), j.get("rule"), j.get("function"), j.get("site"), j.get("file"), j.get("line"), (j.get("message") or "")[:700]))
PY
  done
done
echo "scratch: $R"
