#!/bin/bash
# scratch.sh <seed-or-patch> : copy /repo to /var/tmp/hlscratch.<name>/repo with the patch applied; prints the directory
set -e
p="$1"; [ -f "$p" ] || p="/verif/seeded/$1/patch.diff"
n=$(basename "$(dirname "$p")")
d=/var/tmp/hlscratch.$n
rm -rf "$d"; mkdir -p "$d"
rsync -a --exclude target --exclude .git /repo/ "$d/repo/"
patch -p1 -s -d "$d/repo" -i "$p"
echo "$d/repo"
