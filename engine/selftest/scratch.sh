#!/bin/bash
# scratch.sh <seed-or-patch> : copy /repo to /var/tmp/hlscratch.<name>/repo with the patch applied; prints the directory
set -e
p="$(realpath "$1" 2>/dev/null)"; [ -f "$p" ] || p="/verif/seeded/$1/patch.diff"
n=$(basename "$(dirname "$p")")_$(basename "$p" .diff)
d=/var/tmp/hlscratch.$n
rm -rf "$d"; mkdir -p "$d"
rsync -a --exclude target --exclude .git /repo/ "$d/repo/"
(cd "$d/repo" && git apply --whitespace=nowarn "$p")
echo "$d/repo"
