#!/usr/bin/env python3
"""Apply each self-test mutation (or each seeded change under /verif/seeded) to a scratch copy of the current /repo
and report which rules of which property checks fire.  Usage:
   run.py [--only name,...] [--all-props] [--jobs N] [--seeded]
Scratch copies live under /var/tmp and are removed afterwards."""
import json
import os
import shutil
import subprocess
import sys
import tempfile
from concurrent.futures import ThreadPoolExecutor

HERE = os.path.dirname(os.path.abspath(__file__))
VERIF = os.path.dirname(os.path.dirname(HERE))
sys.path.insert(0, HERE)
PROPS = ["C%02d" % i for i in range(1, 18)]


def scratch_repo():
    d = tempfile.mkdtemp(prefix="hlself.", dir="/var/tmp")
    subprocess.check_call(["rsync", "-a", "--exclude", "target", "--exclude", ".git", "/repo/", d + "/repo/"])
    return d


def run_checks(repo, out, props):
    fired = {}
    env = dict(os.environ, HLV_REPO=repo, HLV_OUT=out)
    for p in props:
        try:
            r = subprocess.run([os.path.join(VERIF, "hlv"), "check", p], env=env, stdout=subprocess.PIPE, stderr=subprocess.PIPE, text=True, timeout=900)
        except subprocess.TimeoutExpired:
            fired[p] = {"rc": 99, "rules": [], "tail": "timeout"}
            continue
        rules = []
        for ln in r.stdout.split("\n"):
            if ln.startswith("VIOLATION"):
                path = ln.split("replay=")[1].strip()
                try:
                    j = json.load(open(path))
                    rules.append((j.get("rule"), j.get("function"), j.get("site")))
                except Exception:
                    rules.append(("?", "?", "?"))
        fired[p] = {"rc": r.returncode, "rules": rules, "tail": r.stdout[-300:] if r.returncode not in (0, 1) else ""}
    return fired


def one(m, all_props):
    d = scratch_repo()
    try:
        repo = d + "/repo"
        if "patch" in m:
            r = subprocess.run(["git", "apply", "--whitespace=nowarn", m["patch"]], cwd=repo, stdout=subprocess.PIPE, stderr=subprocess.PIPE, text=True)
            if r.returncode != 0:
                return m["name"], "skipped", "patch does not apply: " + (r.stdout + r.stderr)[-200:], {}
        elif "rename" in m:
            # whole-word renames across src/ (module file names included)
            import re
            for root, dirs, files in os.walk(os.path.join(repo, "src")):
                for fn in files:
                    pp = os.path.join(root, fn)
                    s = open(pp).read()
                    for a, b in m["rename"]:
                        s = re.sub(r"\b%s\b" % re.escape(a), b, s)
                    open(pp, "w").write(s)
            for a, b in m["rename"]:
                old = os.path.join(repo, "src", a + ".rs")
                if os.path.exists(old):
                    os.rename(old, os.path.join(repo, "src", b + ".rs"))
        else:
            p = os.path.join(repo, m["file"])
            s = open(p).read()
            if m["old"] not in s:
                return m["name"], "skipped", "anchor not found in " + m["file"], {}
            open(p, "w").write(s.replace(m["old"], m["new"], 1))
        b = subprocess.run(["cargo", "check", "--offline", "-q"], cwd=repo, stdout=subprocess.PIPE, stderr=subprocess.PIPE, text=True,
                           env=dict(os.environ, CARGO_TARGET_DIR=d + "/target", RUSTFLAGS="-Awarnings"))
        if b.returncode != 0:
            return m["name"], "nocompile", b.stderr[-400:], {}
        props = PROPS if all_props else sorted(set(p for p, _ in m["expect"])) or PROPS
        fired = run_checks(repo, d + "/out", props)
        return m["name"], "ran", "", fired
    finally:
        shutil.rmtree(d, ignore_errors=True)


def main():
    args = sys.argv[1:]
    all_props = "--all-props" in args
    jobs = 8
    only = None
    if "--jobs" in args:
        jobs = int(args[args.index("--jobs") + 1])
    if "--only" in args:
        only = args[args.index("--only") + 1].split(",")
    if "--seeded" in args:
        muts = []
        sd = os.path.join(VERIF, "seeded")
        for n in sorted(os.listdir(sd)):
            pf = os.path.join(sd, n, "patch.diff")
            if os.path.exists(pf):
                meta = json.load(open(os.path.join(sd, n, "meta.json"))) if os.path.exists(os.path.join(sd, n, "meta.json")) else {}
                muts.append({"name": n, "patch": pf, "expect": [(meta.get("property", "?"), "*")]})
        all_props = True
    elif "--benign" in args:
        import benign
        muts = benign.M
        all_props = True
    else:
        import mutations
        muts = mutations.M
    if only:
        muts = [m for m in muts if m["name"] in only]
    ok = True
    results = {}
    with ThreadPoolExecutor(max_workers=jobs) as ex:
        for name, status, msg, fired in ex.map(lambda m: one(m, all_props), muts):
            m = next(x for x in muts if x["name"] == name)
            results[name] = {"status": status, "msg": msg, "fired": fired}
            if status != "ran":
                print("%-45s %s %s" % (name, status.upper(), msg.replace("\n", " ")[:200]))
                if status == "nocompile":
                    ok = False
                continue
            line = []
            good = True
            for p, rule in m["expect"]:
                got = [r for r in fired.get(p, {}).get("rules", []) if rule == "*" or r[0] == rule or (r[0] or "").split("@")[0] == rule]
                if not got:
                    good = False
                    line.append("%s/%s MISSED" % (p, rule))
                else:
                    line.append("%s/%s ok" % (p, rule))
            others = sorted(set("%s:%s" % (p, r[0]) for p, f in fired.items() for r in f["rules"]))
            bad_rc = [p for p, f in fired.items() if f["rc"] not in (0, 1)]
            if not m["expect"]:
                good = not others
                line.append("negative control: %s" % ("silent" if good else "FIRED"))
            print("%-45s %s  %s   [all fired: %s]%s" % (name, "PASS" if good and not bad_rc else "FAIL", " ".join(line), " ".join(others),
                                                       " CRASH:%s" % bad_rc if bad_rc else ""))
            ok = ok and good and not bad_rc
    json.dump(results, open(os.path.join(VERIF, ".cache", "selftest-last.json"), "w"), indent=1, default=str)
    return 0 if ok else 1


if __name__ == "__main__":
    sys.exit(main())
