"""Self-test mutations: each breaks exactly one instance of one rule, still compiles, and (as far as the repository's
suite goes) passes it.  The harness applies each to a scratch copy of the CURRENT /repo, re-extracts facts and requires
the expected rule to fire on the expected property.  (file, old, new) are exact-string edits; a mutation whose anchor
no longer exists is reported as skipped, never as a failure of the property."""

M = []


def mut(name, file, old, new, expect, note=""):
    M.append({"name": name, "file": file, "old": old, "new": new, "expect": expect, "note": note})


# ---- C06 / C14: the key ----------------------------------------------------------------------------------------------
mut("key_eager_again", "src/key.rs", "key.try_lock().then(|| Self {", "key.try_lock().then_some(Self {",
    [("C06", "K1")], "restore G1")
mut("key_get_ignores_flag", "src/key.rs", "!self.is_locked.replace(true)", "{ self.is_locked.replace(true); true }",
    [("C06", "K2")])
mut("key_drop_noop", "src/key.rs", "unsafe { KEY.with(|key| key.force_unlock()) }", "let _ = &KEY;",
    [("C06", "K2")])
mut("key_clone", "src/key.rs", "unsafe impl Sync for ThreadKey {}",
    "unsafe impl Sync for ThreadKey {}\nimpl Clone for ThreadKey { fn clone(&self) -> Self { Self { phantom: PhantomData } } }",
    [("C06", "K3"), ("C14", "K3")])
mut("key_send", "src/key.rs", "unsafe impl Sync for ThreadKey {}",
    "unsafe impl Sync for ThreadKey {}\nunsafe impl Send for ThreadKey {}", [("C14", "K3")])
mut("keyable_for_unit", "src/key.rs", "unsafe impl Keyable for &mut ThreadKey {}",
    "unsafe impl Keyable for &mut ThreadKey {}\nimpl Sealed for () {}\nunsafe impl Keyable for () {}", [("C14", "K3")])
mut("sealed_public", "src/key.rs", "mod sealed {", "pub mod sealed {", [],
    "`key` is a private module so Sealed stays unnameable: expected NOT to fire unless key becomes public")
mut("guard_key_field_pub", "src/mutex.rs", "\tthread_key: ThreadKey,", "\tpub thread_key: ThreadKey,", [("C14", "S1")])
mut("lockguard_field_order", "src/collection.rs", "\tguard: Guard,\n\tkey: ThreadKey,", "\tkey: ThreadKey,\n\tguard: Guard,",
    [("C03", "R2"), ("C11", "R2")])
mut("mutex_lock_by_mut_ref", "src/mutex/mutex.rs",
    "pub fn unlock(guard: MutexGuard<'_, T, R>) -> ThreadKey {",
    "pub fn peek_key<'k>(guard: &'k mut MutexGuard<'_, T, R>) -> &'k mut ThreadKey {\n\t\t&mut guard.thread_key\n\t}\n\n\t#[must_use]\n\tpub fn unlock(guard: MutexGuard<'_, T, R>) -> ThreadKey {",
    [("C14", "S2"), ("C06", "S2")])
mut("keyless_lock", "src/mutex/mutex.rs",
    "pub fn unlock(guard: MutexGuard<'_, T, R>) -> ThreadKey {",
    "pub fn lock_now(&self) -> MutexRef<'_, T, R> {\n\t\tunsafe {\n\t\t\tself.raw_write();\n\t\t\tMutexRef::new(self)\n\t\t}\n\t}\n\n\t#[must_use]\n\tpub fn unlock(guard: MutexGuard<'_, T, R>) -> ThreadKey {",
    [("C01", "L1")])

# ---- C02 / C03 / C05 / C11: typestate ----------------------------------------------------------------------------------
mut("guard_before_lock", "src/mutex/mutex.rs",
    "\t\t\tself.raw_write();\n\n\t\t\t// safety: we just locked the mutex\n\t\t\tMutexGuard::new(self, key)",
    "\t\t\tlet g = MutexGuard::new(self, key);\n\t\t\tself.raw_write();\n\t\t\tg", [("C02", "T1")])
mut("scoped_handler_unlock_removed", "src/mutex/mutex.rs",
    "\t\t\t\t|| f(self.data.get().as_mut().unwrap_unchecked()),\n\t\t\t\t|| self.raw_unlock_write(),\n\t\t\t);\n\n\t\t\t// ensures the key is held long enough\n\t\t\tdrop(key);\n\n\t\t\t// safety: the mutex is still locked\n\t\t\tself.raw_unlock_write();\n\n\t\t\tr\n",
    "\t\t\t\t|| f(self.data.get().as_mut().unwrap_unchecked()),\n\t\t\t\t|| (),\n\t\t\t);\n\n\t\t\t// ensures the key is held long enough\n\t\t\tdrop(key);\n\n\t\t\t// safety: the mutex is still locked\n\t\t\tself.raw_unlock_write();\n\n\t\t\tr\n",
    [("C11", "R3"), ("C03", "R3"), ("C05", "LK")])
mut("scoped_read_unlocks_write", "src/rwlock/rwlock.rs",
    "\t\t\t\t|| f(self.data.get().as_ref().unwrap_unchecked()),\n\t\t\t\t|| self.raw_unlock_read(),\n\t\t\t);\n\n\t\t\t// ensures the key is held long enough\n\t\t\tdrop(key);\n\n\t\t\t// safety: the mutex is still locked\n\t\t\tself.raw_unlock_read();\n\n\t\t\tr\n",
    "\t\t\t\t|| f(self.data.get().as_ref().unwrap_unchecked()),\n\t\t\t\t|| self.raw_unlock_write(),\n\t\t\t);\n\n\t\t\t// ensures the key is held long enough\n\t\t\tdrop(key);\n\n\t\t\t// safety: the mutex is still locked\n\t\t\tself.raw_unlock_read();\n\n\t\t\tr\n",
    [("C05", "M4")])
mut("utils_scoped_key_dropped_early", "src/collection/utils.rs",
    "\t\t// safety: we have the key\n\t\tcollection.raw_write();\n\n\t\t// safety: we just locked this\n\t\tlet r = handle_unwind(\n\t\t\t|| f(collection.data_mut()),\n\t\t\t|| collection.raw_unlock_write(),\n\t\t);\n\n\t\t// this ensures the key is held long enough\n\t\tdrop(key);\n",
    "\t\t// safety: we have the key\n\t\tcollection.raw_write();\n\t\tdrop(key);\n\n\t\t// safety: we just locked this\n\t\tlet r = handle_unwind(\n\t\t\t|| f(collection.data_mut()),\n\t\t\t|| collection.raw_unlock_write(),\n\t\t);\n",
    [("C03", "R3k"), ("C06", "R3k")])
mut("unlock_forgets_hold", "src/rwlock/rwlock.rs",
    "pub fn unlock_write(guard: RwLockWriteGuard<'_, T, R>) -> ThreadKey {\n\t\tdrop(guard.rwlock);",
    "pub fn unlock_write(guard: RwLockWriteGuard<'_, T, R>) -> ThreadKey {\n\t\tstd::mem::forget(guard.rwlock);",
    [("C03", "R1")])
mut("try_lock_err_loses_nothing_but_runs_closure", "src/collection/utils.rs",
    "\t\tif !collection.raw_try_read() {\n\t\t\treturn Err(key);\n\t\t}",
    "\t\tif !collection.raw_try_read() {\n\t\t\tcollection.raw_read();\n\t\t}", [("C04", "E3")],
    "scoped_try_read falls back to blocking")
mut("writeref_drop_unlock_read", "src/rwlock/write_guard.rs", "unsafe { self.0.raw_unlock_write() }", "unsafe { self.0.raw_unlock_read() }",
    [("C05", "M1"), ("C02", "T1")])
mut("handle_unwind_swallows", "src/handle_unwind.rs", "\t\tcatch();\n\t\tresume_unwind(e)", "\t\tcatch();\n\t\tlet _ = &e;\n\t\tpanic!(\"again\")",
    [], "still unwinds (a new panic): G1 must NOT fire; included as a negative control")
mut("rwlock_raw_read_takes_exclusive", "src/rwlock/rwlock.rs", "handle_unwind(|| this.raw.lock_shared(), || self.poison())",
    "handle_unwind(|| this.raw.lock_exclusive(), || self.poison())", [("C05", "M2")])
mut("mutex_try_ignores_kill", "src/mutex/mutex.rs",
    "\tunsafe fn raw_try_write(&self) -> bool {\n\t\tif self.poison.is_poisoned() {\n\t\t\treturn false;\n\t\t}\n",
    "\tunsafe fn raw_try_write(&self) -> bool {\n", [("C12", "Q2")])
mut("raw_unlock_unwrapped", "src/mutex/mutex.rs",
    "\t\tlet this = AssertUnwindSafe(self);\n\t\thandle_unwind(|| this.raw.unlock(), || self.poison())",
    "\t\tself.raw.unlock()", [("C12", "Q1")])

# ---- C04 / C08 / C07: collections ---------------------------------------------------------------------------------------
mut("boxed_sort_removed", "src/collection/boxed.rs", "\t\tlocks.sort_by_key(|lock| (&raw const **lock).cast::<()>() as usize);\n", "",
    [("C08", "L2"), ("C01", "L2"), ("C07", "L2")])
mut("ref_new_unsorted", "src/collection/ref.rs", "RefLockCollection {\n\t\t\tlocks: get_locks(data),", "RefLockCollection {\n\t\t\tlocks: utils::get_locks_unsorted(data),",
    [("C08", "L2"), ("C01", "L2")])
mut("boxed_raw_read_uses_try_order", "src/collection/boxed.rs", "\t\tutils::ordered_read(self.locks());", "\t\tutils::ordered_write(self.locks());",
    [("C04", "E2"), ("C05", "E2")])
mut("tuple_get_ptrs_skips", "src/lockable.rs", "\t\t\t\t$(self.$value.get_ptrs(ptrs));*", "\t\t\t\tself.0.get_ptrs(ptrs);", [("C04", "E1")])
mut("boxslice_guard_reversed", "src/lockable.rs", "\t\tself.iter().map(|lock| lock.guard()).collect()", "\t\tself.iter().rev().map(|lock| lock.guard()).collect()",
    [("C02", "P1"), ("C16", "P1")])
mut("windows_to_chunks", "src/collection/utils.rs", "\tl.windows(2)", "\tl.chunks(2)", [("C07", "N1")])
mut("addr_eq_to_ptr_eq", "src/collection/utils.rs", ".any(|window| std::ptr::addr_eq(window[0], window[1]))", ".any(|window| std::ptr::eq(window[0], window[1]))",
    [("C07", "N1")])
mut("boxed_try_new_unchecked", "src/collection/boxed.rs", "\t\t\tif ordered_contains_duplicates(this.locks()) {\n\t\t\t\treturn None;\n\t\t\t}\n", "", [("C07", "N1")])
mut("owned_for_shared_ref", "src/lockable.rs", "unsafe impl<T: OwnedLockable> OwnedLockable for &mut T {}",
    "unsafe impl<T: OwnedLockable> OwnedLockable for &mut T {}\nunsafe impl<T: OwnedLockable> OwnedLockable for &T {}", [("C07", "N4")])
mut("owned_get_ptrs_members", "src/collection/owned.rs", "\t\tptrs.push(self)", "\t\tself.data.get_ptrs(ptrs)", [("C08", "L4"), ("C01", "L4")])
mut("owned_child", "src/collection/owned.rs", "\t#[must_use]\n\tpub fn child_mut(&mut self) -> &mut L {",
    "\t#[must_use]\n\tpub fn child(&self) -> &L {\n\t\t&self.data\n\t}\n\n\t#[must_use]\n\tpub fn child_mut(&mut self) -> &mut L {", [("C15", "O1"), ("C01", "O1")])

# ---- C09 / C12 / C13: algorithms ------------------------------------------------------------------------------------------
mut("retry_inner_blocks", "src/collection/retry.rs",
    "\t\t\t\t\t\t// safety: we have the thread key\n\t\t\t\t\t\tif lock.raw_try_write() {\n\t\t\t\t\t\t\tlocked.set(locked.get() + 1);\n\t\t\t\t\t\t} else {\n\t\t\t\t\t\t\t// safety: we already locked all of these\n\t\t\t\t\t\t\tattempt_to_recover_writes_from_panic(&locks[0..i]);\n\t\t\t\t\t\t\tif first_index.get() >= i {",
    "\t\t\t\t\t\t// safety: we have the thread key\n\t\t\t\t\t\tif { lock.raw_write(); true } {\n\t\t\t\t\t\t\tlocked.set(locked.get() + 1);\n\t\t\t\t\t\t} else {\n\t\t\t\t\t\t\t// safety: we already locked all of these\n\t\t\t\t\t\t\tattempt_to_recover_writes_from_panic(&locks[0..i]);\n\t\t\t\t\t\t\tif first_index.get() >= i {",
    [("C09", "Y1")])
mut("retry_rollback_removed", "src/collection/retry.rs",
    "\t\t\t\t\t\t\t// safety: we already locked all of these\n\t\t\t\t\t\t\tattempt_to_recover_writes_from_panic(&locks[0..i]);\n\t\t\t\t\t\t\tif first_index.get() >= i {",
    "\t\t\t\t\t\t\tif first_index.get() >= i {", [("C09", "Y3")])
mut("retry_first_guard_dropped", "src/collection/retry.rs",
    "\t\t\t\t\t\tif first_index.get() >= i {\n\t\t\t\t\t\t\t// safety: this is already locked and can't be unlocked\n\t\t\t\t\t\t\t//         by the previous loop\n\t\t\t\t\t\t\tlocks[first_index.get()].raw_unlock_read();\n\t\t\t\t\t\t}",
    "\t\t\t\t\t\tlocks[first_index.get()].raw_unlock_read();", [("C05", "Q3")])
mut("ordered_try_read_no_rollback", "src/collection/utils.rs",
    "\t\t\t\t\tfor lock in &locks[0..i] {\n\t\t\t\t\t\t// safety: this lock was already acquired\n\t\t\t\t\t\tlock.raw_unlock_read();\n\t\t\t\t\t}\n\t\t\t\t\treturn false;",
    "\t\t\t\t\treturn false;", [("C04", "E5"), ("C13", "E5"), ("C03", "E5")])
mut("ordered_try_write_rollback_mode", "src/collection/utils.rs",
    "\t\t\t\t\tfor lock in &locks[0..i] {\n\t\t\t\t\t\t// safety: this lock was already acquired\n\t\t\t\t\t\tlock.raw_unlock_write();\n\t\t\t\t\t}",
    "\t\t\t\t\tfor lock in &locks[0..i] {\n\t\t\t\t\t\t// safety: this lock was already acquired\n\t\t\t\t\t\tlock.raw_unlock_read();\n\t\t\t\t\t}", [("C05", "Q3")])
mut("ordered_write_handler_off_by_one", "src/collection/utils.rs",
    "\t\t|| attempt_to_recover_writes_from_panic(&locks[0..locked.get()]),", "\t\t|| attempt_to_recover_writes_from_panic(&locks[0..locked.get().max(1) - 1]),",
    [("C12", "Q4")])

# ---- C10: poisoning ------------------------------------------------------------------------------------------------------
mut("poisonref_always_poisons", "src/poisonable/guard.rs", "\t\tif std::thread::panicking() {\n\t\t\tself.flag.poison();\n\t\t}", "\t\tself.flag.poison();",
    [("C10", "F1")])
mut("poisonable_scoped_forgets_poison", "src/poisonable/poisonable.rs",
    "\t\t\tlet r = handle_unwind(\n\t\t\t\t|| f(self.data_mut()),\n\t\t\t\t|| {\n\t\t\t\t\tself.poisoned.poison();\n\t\t\t\t\tself.raw_unlock_write();\n\t\t\t\t},\n\t\t\t);\n\n\t\t\t// safety: the collection is still locked\n\t\t\tself.raw_unlock_write();\n\n\t\t\tdrop(key); // ensure the key stays alive long enough",
    "\t\t\tlet r = handle_unwind(\n\t\t\t\t|| f(self.data_mut()),\n\t\t\t\t|| {\n\t\t\t\t\tself.raw_unlock_write();\n\t\t\t\t},\n\t\t\t);\n\n\t\t\t// safety: the collection is still locked\n\t\t\tself.raw_unlock_write();\n\n\t\t\tdrop(key); // ensure the key stays alive long enough",
    [("C10", "F2")])
mut("poisoned_returns_ok", "src/poisonable/poisonable.rs",
    "\tunsafe fn data_ref(&self) -> Self::DataRef<'_> {\n\t\tif self.is_poisoned() {\n\t\t\tErr(PoisonError::new(self.inner.data_ref()))",
    "\tunsafe fn data_ref(&self) -> Self::DataRef<'_> {\n\t\tif !self.is_poisoned() {\n\t\t\tErr(PoisonError::new(self.inner.data_ref()))",
    [("C10", "F3")])
mut("user_panic_kills_mutex", "src/mutex/mutex.rs",
    "\t\t\t\t|| f(self.data.get().as_mut().unwrap_unchecked()),\n\t\t\t\t|| self.raw_unlock_write(),\n\t\t\t);\n\n\t\t\t// ensures the key is held long enough\n\t\t\tdrop(key);\n\n\t\t\t// safety: the mutex is still locked\n\t\t\tself.raw_unlock_write();\n\n\t\t\tr\n",
    "\t\t\t\t|| f(self.data.get().as_mut().unwrap_unchecked()),\n\t\t\t\t|| {\n\t\t\t\t\tself.raw_unlock_write();\n\t\t\t\t\tself.poison();\n\t\t\t\t},\n\t\t\t);\n\n\t\t\t// ensures the key is held long enough\n\t\t\tdrop(key);\n\n\t\t\t// safety: the mutex is still locked\n\t\t\tself.raw_unlock_write();\n\n\t\t\tr\n",
    [("C10", "F5")])
mut("clear_poison_sets", "src/poisonable/flag.rs", "\tpub fn clear_poison(&self) {\n\t\tself.0.store(false, Relaxed)", "\tpub fn clear_poison(&self) {\n\t\tself.0.store(true, Relaxed)",
    [("C10", "F4")])

# ---- C15 / C16 / C17 -------------------------------------------------------------------------------------------------------
mut("rwlock_sync_weak_again", "src/rwlock/rwlock.rs", "T: ?Sized + Send + Sync> Sync for RwLock<T, R> {}", "T: ?Sized + Send> Sync for RwLock<T, R> {}",
    [("C15", "A1"), ("C15", "W15.6")], "restore G3")
mut("mutexref_send", "src/mutex/guard.rs", "unsafe impl<T: ?Sized + Sync, R: RawMutex + Sync> Sync for MutexRef<'_, T, R> {}",
    "unsafe impl<T: ?Sized + Sync, R: RawMutex + Sync> Sync for MutexRef<'_, T, R> {}\nunsafe impl<T: ?Sized + Send, R: RawMutex + Sync> Send for MutexRef<'_, T, R> {}",
    [("C15", "A1")])
mut("raw_safe", "src/mutex/mutex.rs", "pub const unsafe fn raw(&self) -> &R {", "pub const fn raw(&self) -> &R {", [("C15", "A4"), ("C15", "W15.7")])
mut("scoped_lifetime_again", "src/mutex/mutex.rs", "\tpub fn scoped_lock<'a, Ret>(\n\t\t&'a self,\n\t\tkey: impl Keyable,\n\t\tf: impl FnOnce(&mut T) -> Ret,",
    "\tpub fn scoped_lock<'a, Ret>(\n\t\t&'a self,\n\t\tkey: impl Keyable,\n\t\tf: impl FnOnce(&'a mut T) -> Ret,", [("C15", "A2"), ("C15", "W15.3")], "restore G5a")
mut("readguard_derefmut", "src/rwlock/read_guard.rs", "impl<T: ?Sized, R: RawRwLock> AsRef<T> for RwLockReadGuard<'_, T, R> {",
    "impl<T: ?Sized, R: RawRwLock> std::ops::DerefMut for RwLockReadRef<'_, T, R> {\n\tfn deref_mut(&mut self) -> &mut T {\n\t\tunsafe { &mut *self.0.data.get() }\n\t}\n}\n\nimpl<T: ?Sized, R: RawRwLock> AsRef<T> for RwLockReadGuard<'_, T, R> {",
    [("C15", "A3"), ("C15", "T1")])
mut("into_child_no_forget", "src/collection/boxed.rs", "\t\t\t// to prevent a double free\n\t\t\tstd::mem::forget(self);\n", "", [("C16", "H1")])
mut("try_new_forgets_reject", "src/collection/boxed.rs", "\t\t\tif ordered_contains_duplicates(this.locks()) {\n\t\t\t\treturn None;",
    "\t\t\tif ordered_contains_duplicates(this.locks()) {\n\t\t\t\tstd::mem::forget(this);\n\t\t\t\treturn None;", [("C16", "H1")])
mut("debug_uses_lock", "src/mutex/mutex.rs", "\tpub(crate) unsafe fn try_lock_no_key(&self) -> Option<MutexRef<'_, T, R>> {\n\t\tself.raw_try_write().then(|| MutexRef(self, PhantomData))",
    "\tpub(crate) unsafe fn try_lock_no_key(&self) -> Option<MutexRef<'_, T, R>> {\n\t\tself.raw_write();\n\t\tSome(MutexRef(self, PhantomData))",
    [("C17", "V1"), ("C01", "L1")])
mut("try_no_key_eager_again", "src/mutex/mutex.rs", "self.raw_try_write().then(|| MutexRef(self, PhantomData))", "self.raw_try_write().then_some(MutexRef(self, PhantomData))",
    [("C17", "V2"), ("C02", "T1"), ("C05", "M4")], "restore G2")
mut("is_poisoned_clears", "src/poisonable/poisonable.rs", "\tpub fn is_poisoned(&self) -> bool {\n\t\tself.poisoned.is_poisoned()",
    "\tpub fn is_poisoned(&self) -> bool {\n\t\tlet p = self.poisoned.is_poisoned();\n\t\tself.poisoned.clear_poison();\n\t\tp", [("C17", "V3"), ("C10", "V3")])

mut("ordered_try_write_empty_refuses", "src/collection/utils.rs",
    "pub unsafe fn ordered_try_write(locks: &[&dyn RawLock]) -> bool {\n\tlet locked = Cell::new(0);\n",
    "pub unsafe fn ordered_try_write(locks: &[&dyn RawLock]) -> bool {\n\tif locks.is_empty() {\n\t\treturn false;\n\t}\n\tlet locked = Cell::new(0);\n",
    [("C13", "X2"), ("C04", "X2")])

mut("guard_data_with_lock_lifetime", "src/mutex/guard.rs", "impl<'a, T: ?Sized, R: RawMutex> MutexRef<'a, T, R> {",
    "impl<'a, T: ?Sized, R: RawMutex> MutexRef<'a, T, R> {\n\t/// The protected value.\n\tpub fn get(&self) -> &'a T {\n\t\tunsafe { &*self.0.data.get() }\n\t}\n",
    [("C15", "A6")])
mut("guard_gives_lock_back", "src/mutex/guard.rs", "impl<'a, T: ?Sized, R: RawMutex> MutexRef<'a, T, R> {",
    "impl<'a, T: ?Sized, R: RawMutex> MutexRef<'a, T, R> {\n\t/// The mutex this hold belongs to.\n\tpub fn mutex(&self) -> &Mutex<T, R> {\n\t\tself.0\n\t}\n",
    [("C15", "O3"), ("C01", "O3")])
mut("lockguard_into_inner", "src/collection/guard.rs", "impl<Guard> AsRef<Guard> for LockGuard<Guard> {",
    "impl<Guard> LockGuard<Guard> {\n\t/// Gives up the key and keeps the locks.\n\tpub fn into_holds(self) -> Guard {\n\t\tself.guard\n\t}\n}\n\nimpl<Guard> AsRef<Guard> for LockGuard<Guard> {",
    [("C03", "R6"), ("C14", "R6")])

mut("array_guard_skips_last", "src/lockable.rs", "\t\tfor i in 0..N {\n\t\t\tguards[i].write(self[i].guard());", "\t\tfor i in 0..N - 1 {\n\t\t\tguards[i].write(self[i].guard());",
    [("C02", "P1")])
mut("rwlock_try_write_swapped_branches", "src/rwlock/rwlock.rs",
    "\t\t\tif self.raw_try_write() {\n\t\t\t\t// safety: the lock is locked first\n\t\t\t\tOk(RwLockWriteGuard::new(self, key))\n\t\t\t} else {\n\t\t\t\tErr(key)\n\t\t\t}",
    "\t\t\tif !self.raw_try_write() {\n\t\t\t\t// safety: the lock is locked first\n\t\t\t\tOk(RwLockWriteGuard::new(self, key))\n\t\t\t} else {\n\t\t\t\tErr(key)\n\t\t\t}",
    [("C02", "T1"), ("C03", "R4")])
mut("flag_starts_poisoned", "src/poisonable/flag.rs", "\tpub const fn new() -> Self {\n\t\tSelf(AtomicBool::new(false))", "\tpub const fn new() -> Self {\n\t\tSelf(AtomicBool::new(true))",
    [("C10", "F4")])
mut("rwlock_scoped_read_exclusive", "src/rwlock/rwlock.rs",
    "\t\t\tself.raw_read();\n\n\t\t\t// safety: the data has been locked\n\t\t\tlet r = handle_unwind(\n\t\t\t\t|| f(self.data.get().as_ref().unwrap_unchecked()),\n\t\t\t\t|| self.raw_unlock_read(),\n\t\t\t);\n\n\t\t\t// ensures the key is held long enough\n\t\t\tdrop(key);\n\n\t\t\t// safety: the mutex is still locked\n\t\t\tself.raw_unlock_read();",
    "\t\t\tself.raw_write();\n\n\t\t\t// safety: the data has been locked\n\t\t\tlet r = handle_unwind(\n\t\t\t\t|| f(self.data.get().as_ref().unwrap_unchecked()),\n\t\t\t\t|| self.raw_unlock_write(),\n\t\t\t);\n\n\t\t\t// ensures the key is held long enough\n\t\t\tdrop(key);\n\n\t\t\t// safety: the mutex is still locked\n\t\t\tself.raw_unlock_write();",
    [("C13", "X3"), ("C02", "X3")])

# ---- found with mutgen.py: mutants inside the (already defective) retry handlers were hidden behind coarse known-finding keys --
mut("retry_write_counter_not_bumped", "src/collection/retry.rs", "\t\t\t\t\t\tif lock.raw_try_write() {\n\t\t\t\t\t\t\tlocked.set(locked.get() + 1);",
    "\t\t\t\t\t\tif lock.raw_try_write() {\n\t\t\t\t\t\t\tlocked.set(locked.get() + 0);", [("C12", "Q4"), ("C05", "Q4")],
    "the unwind handler releases a shorter prefix: more locks leak after a panic")
mut("boxed_poison_forwards_nothing", "src/collection/boxed.rs", "\t\tfor lock in &self.locks {\n\t\t\tlock.poison();\n\t\t}", "\t\tfor lock in &self.locks {\n\t\t\tlet _ = lock;\n\t\t}",
    [("C01", "E2")], "mutgen survivor: a collection's poison() that kills nothing (its leaves stay usable after the recovery code gave up on them)")
