//@ rule: W15.5
//@ about: shared access to the members of an OwnedLockCollection
use happylock::collection::OwnedLockCollection;
use happylock::Mutex;
fn main() {
    let c = OwnedLockCollection::new(vec![Mutex::new(1), Mutex::new(2)]);
    let a = c.child(); //~ ERROR E0599|E0624
    //~ TWIN: let a = ();
    let b: &Vec<Mutex<i32>> = c.as_ref(); //~ ERROR E0599
    //~ TWIN: let b = ();
    let i = c.iter(); //~ ERROR E0599
    //~ TWIN: let i = ();
    drop((a, b, i));
}
