//@ rule: W15.3
//@ about: RwLock::scoped_write / scoped_read returning the protected reference out of the closure
use happylock::{RwLock, ThreadKey};
fn main() {
    let mut key = ThreadKey::get().unwrap();
    let m = RwLock::new(vec![1]);
    let r = m.scoped_write(&mut key, |d| d); //~ ERROR "lifetime may not live long enough"
    //~ TWIN: let r = m.scoped_write(&mut key, |d| d.len());
    let _ = r;
    let r = m.scoped_read(&mut key, |d| d); //~ ERROR "lifetime may not live long enough"
    //~ TWIN: let r = m.scoped_read(&mut key, |d| d.len());
    let _ = r;
    let r = m.scoped_try_write(&mut key, |d| d); //~ ERROR "lifetime may not live long enough"
    //~ TWIN: let r = m.scoped_try_write(&mut key, |d| d.len());
    let _ = r;
    let r = m.scoped_try_read(&mut key, |d| d); //~ ERROR "lifetime may not live long enough"
    //~ TWIN: let r = m.scoped_try_read(&mut key, |d| d.len());
    let _ = r;
}
