//@ rule: W15.6
//@ about: RefLockCollection over a Send-but-not-Sync lockable sent to another thread (it holds &L)
use happylock::collection::RefLockCollection;
use happylock::mutex::Mutex;
use std::cell::Cell;
// a raw mutex that is Send but not Sync
struct CellRaw(Cell<bool>);
unsafe impl lock_api::RawMutex for CellRaw {
    const INIT: Self = CellRaw(Cell::new(false));
    type GuardMarker = lock_api::GuardNoSend;
    fn lock(&self) { self.0.set(true) }
    fn try_lock(&self) -> bool { !self.0.replace(true) }
    unsafe fn unlock(&self) { self.0.set(false) }
}
fn is_send<T: Send>() {}
fn main() {
    is_send::<RefLockCollection<'static, Mutex<i32, CellRaw>>>(); //~ ERROR E0277
    is_send::<Mutex<i32, CellRaw>>();
}
