//@ rule: W15.4
//@ about: a collection's scoped_lock returning the protected references out of the closure
use happylock::{LockCollection, Mutex, ThreadKey};
fn main() {
    let mut key = ThreadKey::get().unwrap();
    let c = LockCollection::new((Mutex::new(vec![1]), Mutex::new(2)));
    let r = c.scoped_lock(&mut key, |d| d); //~ ERROR "lifetime may not live long enough"
    //~ TWIN: let r = c.scoped_lock(&mut key, |d| d.0.len());
    let _ = r;
}
