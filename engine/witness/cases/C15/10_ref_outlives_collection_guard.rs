//@ rule: W15.1
//@ about: a reference obtained from a collection guard outliving the guard
use happylock::{LockCollection, Mutex, ThreadKey};
fn main() {
    let key = ThreadKey::get().unwrap();
    let c = LockCollection::new((Mutex::new(vec![1]), Mutex::new(2)));
    let r: &Vec<i32>;
    {
        let g = c.lock(key);
        r = &*g.0; //~ ERROR E0597
        //~ TWIN: r = &VEC;
    }
    println!("{:?}", r);
}
static VEC: Vec<i32> = Vec::new();
