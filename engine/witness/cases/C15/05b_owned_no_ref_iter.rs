//@ rule: W15.5
//@ about: iterating an OwnedLockCollection by shared reference
use happylock::collection::OwnedLockCollection;
use happylock::Mutex;
fn main() {
    let c = OwnedLockCollection::new(vec![Mutex::new(1), Mutex::new(2)]);
    for m in &c {} //~ ERROR E0277
    drop(c);
}
