//@ rule: W15.2
//@ about: a RefLockCollection outliving the locks it borrows
use happylock::collection::RefLockCollection;
use happylock::Mutex;
fn main() {
    let keep = (Mutex::new(0), Mutex::new(1));
    let c;
    {
        let data = (Mutex::new(0), Mutex::new(1));
        c = RefLockCollection::new(&data); //~ ERROR E0597
        //~ TWIN: c = RefLockCollection::new(&keep);
    }
    drop(c);
    let _ = &keep;
}
