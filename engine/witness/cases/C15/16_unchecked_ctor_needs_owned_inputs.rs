//@ rule: W15.16
//@ about: the constructors that skip the duplicate check accept only owned inputs: borrowed locks and borrowing collections are refused
use happylock::collection::{RefLockCollection, RetryingLockCollection};
use happylock::{LockCollection, Mutex};
fn main() {
    let pair = (Mutex::new(0), Mutex::new(1));
    let r = RefLockCollection::new(&pair);
    let r2 = RefLockCollection::new(&pair);
    let c = RetryingLockCollection::new((r, r2)); //~ ERROR E0277
    //~ TWIN: let c = RetryingLockCollection::try_new((r, r2)).is_none();
    drop(c);
    let m = Mutex::new(0);
    let d = LockCollection::new([&m, &m]); //~ ERROR E0277
    //~ TWIN: let d = LockCollection::try_new([&m, &m]).is_none();
    drop(d);
}
