//@ rule: W15.6
//@ about: key-less holds moved to another thread although the raw lock forbids it (parking_lot: GuardNoSend)
use happylock::mutex::MutexRef;
use happylock::rwlock::{RwLockReadRef, RwLockWriteRef};
fn is_send<T: Send>() {}
fn main() {
    is_send::<MutexRef<'static, i32, parking_lot::RawMutex>>(); //~ ERROR E0277
    is_send::<RwLockReadRef<'static, i32, parking_lot::RawRwLock>>(); //~ ERROR E0277
    is_send::<RwLockWriteRef<'static, i32, parking_lot::RawRwLock>>(); //~ ERROR E0277
    is_send::<i32>();
}
