//@ rule: W15.1
//@ about: a reference obtained from a guard outliving the guard
use happylock::{Mutex, ThreadKey};
fn main() {
    let key = ThreadKey::get().unwrap();
    let m = Mutex::new(vec![1]);
    let r: &Vec<i32>;
    {
        let g = m.lock(key);
        r = &*g; //~ ERROR E0597
        //~ TWIN: r = &VEC;
    }
    println!("{:?}", r);
}
static VEC: Vec<i32> = Vec::new();
