//@ rule: W15.6
//@ about: non-thread-safe payloads crossing threads through locks, guards and collections
use happylock::collection::{BoxedLockCollection, LockGuard, OwnedLockCollection, RetryingLockCollection};
use happylock::mutex::MutexRef;
use happylock::{Mutex, RwLock};
use std::cell::Cell;
use std::rc::Rc;
fn is_send<T: Send>() {}
fn is_sync<T: Sync>() {}
fn main() {
    is_sync::<Mutex<Rc<i32>>>(); //~ ERROR E0277
    is_send::<Mutex<Rc<i32>>>(); //~ ERROR E0277
    is_send::<RwLock<Rc<i32>>>(); //~ ERROR E0277
    is_sync::<LockGuard<MutexRef<'static, Cell<i32>, parking_lot::RawMutex>>>(); //~ ERROR E0277
    is_send::<BoxedLockCollection<Mutex<Rc<i32>>>>(); //~ ERROR E0277
    is_sync::<OwnedLockCollection<Mutex<Rc<i32>>>>(); //~ ERROR E0277
    is_sync::<RetryingLockCollection<Mutex<Rc<i32>>>>(); //~ ERROR E0277
    is_sync::<Mutex<Cell<i32>>>();
    is_send::<Mutex<Cell<i32>>>();
}
