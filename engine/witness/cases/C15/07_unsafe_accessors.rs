//@ rule: W15.7
//@ about: raw accessors and unchecked constructors are unsafe
use happylock::collection::{RefLockCollection, RetryingLockCollection};
use happylock::lockable::Lockable;
use happylock::{LockCollection, Mutex};
fn main() {
    let m = Mutex::new(0);
    let raw = m.raw(); //~ ERROR E0133
    //~ TWIN: let raw = ();
    let c = LockCollection::new_unchecked((&m, &m)); //~ ERROR E0133
    //~ TWIN: let c = ();
    let d = RefLockCollection::new_unchecked(&(&m, &m)); //~ ERROR E0133
    //~ TWIN: let d = ();
    let e = RetryingLockCollection::new_unchecked((&m, &m)); //~ ERROR E0133
    //~ TWIN: let e = ();
    let f = m.data_mut(); //~ ERROR E0133
    //~ TWIN: let f = ();
    drop((raw, c, d, e, f));
}
