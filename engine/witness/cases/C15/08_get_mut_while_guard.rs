//@ rule: W15.8
//@ about: get_mut / into_inner while a guard is alive
use happylock::{Mutex, ThreadKey};
fn main() {
    let key = ThreadKey::get().unwrap();
    let mut m = Mutex::new(0);
    let g = m.lock(key);
    *m.get_mut() += 1; //~ ERROR E0502
    let v = m.into_inner(); //~ ERROR E0505
    //~ TWIN: let v = 0;
    println!("{} {}", *g, v);
}
