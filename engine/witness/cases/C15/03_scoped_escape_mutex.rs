//@ rule: W15.3
//@ about: Mutex::scoped_lock returning the protected &mut out of the closure
use happylock::{Mutex, ThreadKey};
fn main() {
    let mut key = ThreadKey::get().unwrap();
    let m = Mutex::new(vec![1]);
    let r = m.scoped_lock(&mut key, |d| d); //~ ERROR "lifetime may not live long enough"
    //~ TWIN: let r = m.scoped_lock(&mut key, |d| d.len());
    let _ = r;
}
