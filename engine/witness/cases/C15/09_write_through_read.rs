//@ rule: W15.9
//@ about: writing through a read guard or scoped_read data
use happylock::{RwLock, ThreadKey};
fn main() {
    let mut key = ThreadKey::get().unwrap();
    let l = RwLock::new(0);
    l.scoped_read(&mut key, |d| {
        *d += 1; //~ ERROR E0594
    });
    let mut g = l.read(key);
    *g += 1; //~ ERROR E0594
    drop(g);
}
