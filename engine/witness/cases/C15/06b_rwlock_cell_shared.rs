//@ rule: W15.6
//@ about: RwLock<Cell<_>> shared between threads (two readers race on the Cell)
use happylock::RwLock;
use std::cell::Cell;
fn is_sync<T: Sync>() {}
fn main() {
    is_sync::<RwLock<Cell<i32>>>(); //~ ERROR E0277
    is_sync::<RwLock<i32>>();
}
