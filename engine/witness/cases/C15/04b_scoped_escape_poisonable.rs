//@ rule: W15.4
//@ about: Poisonable::scoped_lock returning the protected reference out of the closure
use happylock::{Mutex, Poisonable, ThreadKey};
fn main() {
    let mut key = ThreadKey::get().unwrap();
    let c = Poisonable::new(Mutex::new(vec![1]));
    let r = c.scoped_lock(&mut key, |d| d); //~ ERROR "lifetime may not live long enough"
    //~ TWIN: let r = c.scoped_lock(&mut key, |d| d.is_ok());
    let _ = r;
}
