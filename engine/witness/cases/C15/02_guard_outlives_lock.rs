//@ rule: W15.2
//@ about: a guard outliving its lock
use happylock::{Mutex, ThreadKey};
fn main() {
    let key = ThreadKey::get().unwrap();
    let keep = Mutex::new(0);
    let g;
    {
        let m = Mutex::new(0);
        g = m.lock(key); //~ ERROR E0597
        //~ TWIN: g = keep.lock(key);
    }
    println!("{}", *g);
    let _ = &keep;
}
