//@ rule: W15.1
//@ about: data of a Poisonable guard outliving the guard
use happylock::{Mutex, Poisonable, ThreadKey};
fn main() {
    let key = ThreadKey::get().unwrap();
    let p = Poisonable::new(Mutex::new(vec![1]));
    let r: &Vec<i32>;
    {
        let g = p.lock(key).unwrap();
        r = &*g; //~ ERROR E0597
        //~ TWIN: r = &VEC;
    }
    println!("{:?}", r);
}
static VEC: Vec<i32> = Vec::new();
