//@ rule: W15.6
//@ about: read guards / hold references shared between threads with a non-Sync payload
use happylock::rwlock::{RwLockReadGuard, RwLockReadRef, RwLockWriteRef};
use std::cell::Cell;
fn is_sync<T: Sync>() {}
fn main() {
    is_sync::<RwLockReadRef<'static, Cell<i32>, parking_lot::RawRwLock>>(); //~ ERROR E0277
    is_sync::<RwLockWriteRef<'static, Cell<i32>, parking_lot::RawRwLock>>(); //~ ERROR E0277
    is_sync::<RwLockReadGuard<'static, Cell<i32>, parking_lot::RawRwLock>>(); //~ ERROR E0277
    is_sync::<RwLockReadRef<'static, i32, parking_lot::RawRwLock>>();
}
