//@ rule: W15.2
//@ about: a boxed collection built with new_ref outliving the locks it borrows
use happylock::{LockCollection, Mutex};
fn main() {
    let keep = (Mutex::new(0), Mutex::new(1));
    let d;
    {
        let data = (Mutex::new(0), Mutex::new(1));
        d = LockCollection::new_ref(&data); //~ ERROR E0597
        //~ TWIN: d = LockCollection::new_ref(&keep);
    }
    drop(d);
    let _ = &keep;
}
