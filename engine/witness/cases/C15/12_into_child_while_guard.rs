//@ rule: W15.8
//@ about: consuming a collection while one of its guards is alive
use happylock::{LockCollection, Mutex, ThreadKey};
fn main() {
    let key = ThreadKey::get().unwrap();
    let c = LockCollection::new((Mutex::new(1), Mutex::new(2)));
    let g = c.lock(key);
    let inner = c.into_child(); //~ ERROR E0505
    //~ TWIN: let inner = ();
    println!("{}", *g.0);
    drop(inner);
}
