//@ rule: W07.2
//@ about: the same lock listed twice by unique reference
use happylock::{LockCollection, Mutex};
fn main() {
    let mut m = Mutex::new(0);
    let mut n = Mutex::new(0);
    let a = LockCollection::new((&mut m, &mut m)); //~ ERROR E0499
    //~ TWIN: let a = LockCollection::new((&mut m, &mut n));
    drop(a);
    let _ = &mut n;
}
