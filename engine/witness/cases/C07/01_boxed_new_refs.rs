//@ rule: W07.1
//@ about: unchecked-at-runtime constructors reject inputs that only borrow their locks
use happylock::collection::{OwnedLockCollection, RefLockCollection, RetryingLockCollection};
use happylock::{LockCollection, Mutex};
fn main() {
    let m = Mutex::new(0);
    let a = LockCollection::new((&m, &m)); //~ ERROR E0277
    //~ TWIN: let a = LockCollection::new((Mutex::new(0), Mutex::new(0)));
    let pair = (&m, &m);
    let b = LockCollection::new_ref(&pair); //~ ERROR E0277
    //~ TWIN: let b = ();
    let c = RefLockCollection::new(&pair); //~ ERROR E0277
    //~ TWIN: let c = ();
    let d = RetryingLockCollection::new((&m, &m)); //~ ERROR E0277
    //~ TWIN: let d = RetryingLockCollection::new((Mutex::new(0), Mutex::new(0)));
    let e = RetryingLockCollection::new_ref(&pair); //~ ERROR E0277
    //~ TWIN: let e = ();
    let f = OwnedLockCollection::new((&m, &m)); //~ ERROR E0277
    //~ TWIN: let f = OwnedLockCollection::new((Mutex::new(0), Mutex::new(0)));
    drop((a, b, c, d, e, f));
}
