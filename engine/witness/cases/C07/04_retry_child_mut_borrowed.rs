//@ rule: W07.4
//@ about: mutable access to the data of a retrying collection built from borrowed locks (duplicates could be swapped in after the check)
use happylock::collection::RetryingLockCollection;
use happylock::Mutex;
fn main() {
    let a = Mutex::new(0);
    let b = Mutex::new(1);
    let mut c = RetryingLockCollection::try_new((&a, &b)).unwrap();
    *c.child_mut() = (&a, &a); //~ ERROR E0277|E0599
    let mut o = RetryingLockCollection::new((Mutex::new(0), Mutex::new(1)));
    *o.child_mut() = (Mutex::new(2), Mutex::new(3));
    drop((c, o));
}
