//@ rule: W07.3
//@ about: a RefLockCollection (which only borrows) is not accepted where ownership is required
use happylock::collection::RefLockCollection;
use happylock::{LockCollection, Mutex};
fn main() {
    let pair = (Mutex::new(0), Mutex::new(1));
    let r = RefLockCollection::new(&pair);
    let r2 = RefLockCollection::new(&pair);
    let c = LockCollection::new((r, r2)); //~ ERROR E0277
    //~ TWIN: let c = LockCollection::try_new((r, r2)).is_none();
    drop(c);
}
