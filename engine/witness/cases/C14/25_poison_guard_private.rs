//@ rule: W14.10
//@ about: reaching the key through a PoisonGuard's private field
use happylock::{Mutex, Poisonable, ThreadKey};
fn main() {
    let key = ThreadKey::get().unwrap();
    let p = Poisonable::new(Mutex::new(0));
    let g = p.lock(key).unwrap();
    let k = g.@{field:PoisonGuard~ThreadKey}; //~ ERROR E0616
    //~ TWIN: let k = Poisonable::<Mutex<i32>>::unlock(g);
    drop(k);
}
