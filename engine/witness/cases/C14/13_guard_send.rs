//@ rule: W14.9
//@ about: key-holding guards sent to another thread
use happylock::collection::LockGuard;
use happylock::mutex::{MutexGuard, MutexRef};
use happylock::poisonable::PoisonGuard;
use happylock::rwlock::{RwLockReadGuard, RwLockWriteGuard};
fn is_send<T: Send>() {}
fn main() {
    is_send::<MutexGuard<'static, i32, parking_lot::RawMutex>>(); //~ ERROR E0277
    is_send::<RwLockReadGuard<'static, i32, parking_lot::RawRwLock>>(); //~ ERROR E0277
    is_send::<RwLockWriteGuard<'static, i32, parking_lot::RawRwLock>>(); //~ ERROR E0277
    is_send::<LockGuard<()>>(); //~ ERROR E0277
    is_send::<PoisonGuard<'static, ()>>(); //~ ERROR E0277
    is_send::<happylock::ThreadKey>(); //~ ERROR E0277
    is_send::<happylock::poisonable::TryLockPoisonableError<'static, ()>>(); //~ ERROR E0277
    is_send::<i32>();
    let _ = std::marker::PhantomData::<MutexRef<'static, i32, parking_lot::RawMutex>>;
}
