//@ rule: W14.3
//@ about: the same key used for two live guards
use happylock::{Mutex, ThreadKey};
fn main() {
    let key = ThreadKey::get().unwrap();
    let a = Mutex::new(0);
    let b = Mutex::new(0);
    let ga = a.lock(key);
    let gb = b.lock(key); //~ ERROR E0382
    //~ TWIN: let gb = ();
    drop((ga, gb));
}
