//@ rule: W14.11
//@ about: moving the per-lock holds out of a tuple collection guard
use happylock::{LockCollection, Mutex, ThreadKey};
fn main() {
    let key = ThreadKey::get().unwrap();
    let c = LockCollection::new((Mutex::new(1), Mutex::new(2)));
    let g = c.lock(key);
    let (a, b) = *g; //~ ERROR E0507
    //~ TWIN: let (a, b) = (*g.0, *g.1);
    drop((a, b));
}
