//@ rule: W14.13
//@ about: sharing the key with another thread through Arc
use happylock::ThreadKey;
use std::sync::Arc;
fn is_send<T: Send>(_: &T) {}
fn main() {
    let a = Arc::new(ThreadKey::get());
    is_send(&a); //~ ERROR E0277
    drop(a);
}
