//@ rule: W14.15
//@ about: the hold constructor is crate-private
use happylock::Mutex;
fn main() {
    let m = Mutex::new(0);
    let r = unsafe { happylock::mutex::MutexRef::new(&m) }; //~ ERROR E0624
    //~ TWIN: let r = ();
    drop(r);
}
