//@ rule: W14.15
//@ about: the hold constructor is crate-private
use happylock::Mutex;
fn main() {
    let m = Mutex::new(0);
    let r = unsafe { happylock::mutex::MutexRef::@{privfn:MutexRef}(&m) }; //~ ERROR E0624
    //~ TWIN: let r = ();
    drop(r);
}
