//@ rule: W14.6
//@ about: lock() with &mut ThreadKey would return the key to the caller while the guard lives
use happylock::{Mutex, ThreadKey};
fn main() {
    let mut key = ThreadKey::get().unwrap();
    let m = Mutex::new(0);
    let g = m.lock(&mut key); //~ ERROR E0308
    //~ TWIN: let g = m.lock(key);
    drop(g);
}
