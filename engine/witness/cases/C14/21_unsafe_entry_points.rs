//@ rule: W14.15
//@ about: key-less acquisition and guard construction are unsafe fns
use happylock::lockable::{Lockable, RawLock};
use happylock::{Mutex, ThreadKey};
fn main() {
    let m = Mutex::new(0);
    m.raw_write(); //~ ERROR E0133
    let g = m.guard(); //~ ERROR E0133
    //~ TWIN: let g = ();
    drop(g);
    let _ = ThreadKey::get();
}
