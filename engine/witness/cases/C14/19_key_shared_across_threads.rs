//@ rule: W14.13
//@ about: lending the key to another thread through &mut
use happylock::{Mutex, ThreadKey};
fn is_send<T: Send>(_: &T) {}
fn main() {
    let mut key = ThreadKey::get().unwrap();
    let m = Mutex::new(0);
    let mut f = || m.scoped_lock(&mut key, |d| *d += 1);
    is_send(&f); //~ ERROR E0277
    f();
}
