//@ rule: W14.14
//@ about: using a collection guard after unlock() consumed it
use happylock::{LockCollection, Mutex, ThreadKey};
fn main() {
    let key = ThreadKey::get().unwrap();
    let c = LockCollection::new((Mutex::new(1), Mutex::new(2)));
    let mut g = c.lock(key);
    *g.0 += 1;
    let key = LockCollection::<(Mutex<i32>, Mutex<i32>)>::unlock(g);
    *g.1 += 1; //~ ERROR E0382
    drop(key);
}
