//@ rule: W14.11b
//@ about: mem::take on a Vec collection guard moves every hold out; unlock() then returns the key while the locks are held
use happylock::{LockCollection, Mutex, ThreadKey};
fn main() {
    let key = ThreadKey::get().unwrap();
    let c = LockCollection::new(vec![Mutex::new(1), Mutex::new(2)]);
    let mut g = c.lock(key);
    let holds = std::mem::take(&mut *g); //~ ERROR E0277
    //~ TWIN: let holds = ();
    let key = LockCollection::<Vec<Mutex<i32>>>::unlock(g);
    drop((holds, key));
}
