//@ rule: W14.10
//@ about: reaching the key or the hold through a guard's private fields
use happylock::{LockCollection, Mutex, ThreadKey};
fn main() {
    let key = ThreadKey::get().unwrap();
    let m = Mutex::new(0);
    let g = m.lock(key);
    let k = g.@{field:MutexGuard~ThreadKey}; //~ ERROR E0616
    //~ TWIN: let k = Mutex::unlock(g);
    let c = LockCollection::new((Mutex::new(1), Mutex::new(2)));
    let g2 = c.lock(k);
    let k2 = g2.@{field:LockGuard~ThreadKey}; //~ ERROR E0616
    //~ TWIN: let k2 = LockCollection::<(Mutex<i32>, Mutex<i32>)>::unlock(g2);
    drop(k2);
}
