//@ rule: W14.12
//@ about: an owned key passed to a scoped call is consumed
use happylock::{Mutex, ThreadKey};
fn main() {
    let key = ThreadKey::get().unwrap();
    let m = Mutex::new(0);
    m.scoped_lock(key, |d| *d += 1);
    m.scoped_lock(key, |d| *d += 1); //~ ERROR E0382
}
