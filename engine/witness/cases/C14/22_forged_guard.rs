//@ rule: W14.10
//@ about: building a key-holding guard by struct literal
use happylock::collection::LockGuard;
use happylock::ThreadKey;
fn main() {
    let key = ThreadKey::get().unwrap();
    let g = LockGuard { @{field:LockGuard#0}: (), @{field:LockGuard~ThreadKey}: key }; //~ ERROR E0451
    //~ TWIN: let g = key;
    drop(g);
}
