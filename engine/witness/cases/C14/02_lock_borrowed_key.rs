//@ rule: W14.2
//@ about: lock() called with a shared reference to the key
use happylock::{Mutex, ThreadKey};
fn main() {
    let key = ThreadKey::get().unwrap();
    let m = Mutex::new(0);
    let g = m.lock(&key); //~ ERROR E0308
    //~ TWIN: let g = m.lock(key);
    drop(g);
}
