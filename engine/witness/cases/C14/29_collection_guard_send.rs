//@ rule: W14.9
//@ about: a collection guard (which holds the key) moved into another thread
use happylock::{LockCollection, Mutex, ThreadKey};
fn is_send<T: Send>(_: &T) {}
fn main() {
    let key = ThreadKey::get().unwrap();
    let c = LockCollection::new((Mutex::new(1), Mutex::new(2)));
    let g = c.lock(key);
    is_send(&g); //~ ERROR E0277
    drop(g);
}
