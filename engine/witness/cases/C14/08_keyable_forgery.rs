//@ rule: W14.5
//@ about: implementing Keyable for a foreign type
use happylock::{Keyable, Mutex};
struct Fake;
unsafe impl Keyable for Fake {} //~ ERROR E0277
fn main() {
    let m = Mutex::new(0);
    let _ = &m;
}
