//@ rule: W14.4
//@ about: ThreadKey::default()
use happylock::ThreadKey;
fn main() {
    let real = ThreadKey::get();
    let key = <ThreadKey as Default>::default(); //~ ERROR E0277
    //~ TWIN: let key = ();
    drop((real, key));
}
