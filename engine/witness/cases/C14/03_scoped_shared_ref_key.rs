//@ rule: W14.2
//@ about: scoped_lock() called with &ThreadKey (not Keyable)
use happylock::{Mutex, ThreadKey};
fn main() {
    let mut key = ThreadKey::get().unwrap();
    let m = Mutex::new(0);
    m.scoped_lock(&key, |d| *d += 1); //~ ERROR E0277
    //~ TWIN: m.scoped_lock(&mut key, |d| *d += 1);
    let _ = &mut key;
}
