//@ rule: W14.1
//@ about: a ThreadKey moved into another thread
use happylock::ThreadKey;
fn is_send<T: Send>(_: &T) {}
fn main() {
    let key = ThreadKey::get().unwrap();
    let f = move || drop(key);
    is_send(&f); //~ ERROR E0277
    f();
}
