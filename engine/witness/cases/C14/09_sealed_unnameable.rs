//@ rule: W14.5
//@ about: naming the sealing trait from outside
use happylock::Mutex;
struct Fake;
impl happylock::@{sealed:Keyable} for Fake {} //~ ERROR E0603
fn main() {
    let m = Mutex::new(0);
    let _ = (&m, Fake);
}
