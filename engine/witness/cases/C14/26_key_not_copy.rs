//@ rule: W14.3
//@ about: a key is not Copy
use happylock::ThreadKey;
fn main() {
    let key = ThreadKey::get().unwrap();
    let a = key;
    let b = key; //~ ERROR E0382
    //~ TWIN: let b = ();
    drop((a, b));
}
