//@ rule: W14.8
//@ about: second acquisition while a guard (which owns the key) is alive
use happylock::{Mutex, ThreadKey};
fn main() {
    let key = ThreadKey::get().unwrap();
    let a = Mutex::new(0);
    let b = Mutex::new(0);
    let ga = a.lock(key);
    let gb = b.scoped_lock(key, |y| *y); //~ ERROR E0382
    //~ TWIN: let gb = 0;
    drop((ga, gb));
}
