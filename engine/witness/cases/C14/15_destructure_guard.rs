//@ rule: W14.10
//@ about: destructuring a collection guard
use happylock::collection::LockGuard;
use happylock::{LockCollection, Mutex, ThreadKey};
fn main() {
    let key = ThreadKey::get().unwrap();
    let c = LockCollection::new((Mutex::new(1), Mutex::new(2)));
    let g = c.lock(key);
    let LockGuard { @{field:LockGuard#0}: guard, @{field:LockGuard~ThreadKey}: key } = g; //~ ERROR E0451
    //~ TWIN: let (guard, key) = ((), LockCollection::<(Mutex<i32>, Mutex<i32>)>::unlock(g));
    drop((guard, key));
}
