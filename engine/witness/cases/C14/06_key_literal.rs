//@ rule: W14.4
//@ about: forging a key with a struct literal
use happylock::ThreadKey;
fn main() {
    let real = ThreadKey::get();
    let key = ThreadKey { @{field:ThreadKey#0}: std::marker::PhantomData }; //~ ERROR E0451
    //~ TWIN: let key = ();
    drop((real, key));
}
