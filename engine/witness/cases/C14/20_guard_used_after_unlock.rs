//@ rule: W14.14
//@ about: using a guard after unlock() consumed it
use happylock::{Mutex, ThreadKey};
fn main() {
    let key = ThreadKey::get().unwrap();
    let m = Mutex::new(0);
    let mut g = m.lock(key);
    *g += 1;
    let key = Mutex::unlock(g);
    *g += 1; //~ ERROR E0382
    drop(key);
}
