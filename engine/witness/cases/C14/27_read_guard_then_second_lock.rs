//@ rule: W14.8
//@ about: a second acquisition while a read guard or a collection guard owns the key
use happylock::{LockCollection, Mutex, RwLock, ThreadKey};
fn main() {
    let key = ThreadKey::get().unwrap();
    let l = RwLock::new(0);
    let c = LockCollection::new((Mutex::new(1), Mutex::new(2)));
    let r = l.read(key);
    let g = c.lock(key); //~ ERROR E0382
    //~ TWIN: let g = ();
    drop((r, g));
}
