//@ rule: W14.7
//@ about: nested scoped calls lending the same key twice
use happylock::{Mutex, ThreadKey};
fn main() {
    let mut key = ThreadKey::get().unwrap();
    let a = Mutex::new(0);
    let b = Mutex::new(0);
    let inner = |x: &mut i32| b.scoped_lock(&mut key, |y| *x += *y);
    a.scoped_lock(&mut key, inner); //~ ERROR E0499
}
