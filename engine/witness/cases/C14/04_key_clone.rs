//@ rule: W14.3
//@ about: cloning a key
use happylock::ThreadKey;
fn main() {
    let key = ThreadKey::get().unwrap();
    let key2 = key.clone(); //~ ERROR E0599
    //~ TWIN: let key2 = ();
    drop((key, key2));
}
